import GenlmModel.Proofs.Wfsa
import GenlmModel.Proofs.TrimSem
import Mathlib.Algebra.BigOperators.Group.List.Basic
import Mathlib.Algebra.BigOperators.Ring.List
import Mathlib.Tactic.Ring

/-! # `WFSA.star`, and the rational laws at the level of the stratified sums `PN` (property C12)

Python (`genlm/grammar/wfsa/base.py`):

    one  = lift(EPSILON, R.one)          -- two states, one ε arc of weight one
    star = self.one + self.kleene_plus()

Models: `WFSA.one`, `WFSA.star` below (`lift`, `union`, `kleenePlus` are in `Model/WfsaOps.lean`).

Exact-length level (`Pk`, any commutative semiring, any machine):
* `one_Pk`, `star_Pk` — `Pk A* k x = [k = 1 ∧ x = ε] + Pk A⁺ k x`; `star_PN` — the same for `PN`.

Stratified level (`PN A n x`: paths of at most `n` arcs).  `concat_Pk` and `kleenePlus_Pk` are
*diagonal* identities (the arcs of a path of the product are shared between the factors), so the
`PN`s of a product are not the product of the `PN`s at the same level; they are sandwiched, in the
natural preorder `≼` of the semiring (`NatLe`, `Proofs/TrimSem.lean`), between products of `PN`s at
lower and at higher levels:
* `concat_PN_le`, `concat_PN_ge`  — `Σ_{uv=x} PN A m u · PN B m' v ≼ PN (A·B) n x ≼ Σ_{uv=x} PN A n u · PN B n v`
  whenever `m + m' + 1 ≤ n`;
* `kleenePlus_PN_le`, `kleenePlus_PN_ge` — the same for `A⁺ = A + A·A⁺`;
* `star_PN_le`, `star_PN_ge` — the same for `A* = 1 + A·A*`;
* `concat_PN_limit`, `kleenePlus_PN_limit`, `star_PN_limit` — hence the laws hold in the limit: where
  `≼` is antisymmetric and the operands' weights have stabilised, the compound weight stabilises at
  the value given by the law.
Helpers in `Genlm.Misc2Aux`. -/
namespace Genlm
set_option linter.unusedSectionVars false
open WfsaAux

section Defs
variable {ι σ K : Type}

/-- `WFSA.one = lift(EPSILON, one)` -/
def WFSA.one [One K] : WFSA Nat σ K := WFSA.lift none 1

/-- `WFSA.star = self.one + self.kleene_plus()` -/
def WFSA.star [Mul K] [One K] (A : WFSA ι σ K) : WFSA (Nat ⊕ ι) σ K :=
  (WFSA.one : WFSA Nat σ K).union A.kleenePlus

end Defs

namespace Misc2Aux

/-! ### the natural preorder, without `DecidableEq K` -/
section NLe
variable {K : Type} [CommSemiring K]

theorem nle_refl (a : K) : a ≼ a := ⟨0, (add_zero a).symm⟩
theorem nle_of_eq {a b : K} (h : a = b) : a ≼ b := h ▸ nle_refl a
theorem nle_zero (a : K) : (0 : K) ≼ a := ⟨a, (zero_add a).symm⟩
theorem nle_trans {a b c : K} (h1 : a ≼ b) (h2 : b ≼ c) : a ≼ c := by
  obtain ⟨d, rfl⟩ := h1; obtain ⟨e, rfl⟩ := h2; exact ⟨d + e, add_assoc _ _ _⟩
theorem nle_add {a a' b b' : K} (h1 : a ≼ a') (h2 : b ≼ b') : a + b ≼ a' + b' := by
  obtain ⟨d, rfl⟩ := h1; obtain ⟨e, rfl⟩ := h2; exact ⟨d + e, by ring⟩
theorem nle_mul {a a' b b' : K} (h1 : a ≼ a') (h2 : b ≼ b') : a * b ≼ a' * b' := by
  obtain ⟨d, rfl⟩ := h1; obtain ⟨e, rfl⟩ := h2; exact ⟨a * e + d * b + d * e, by ring⟩

theorem nle_sum {α : Type} (l : List α) (f g : α → K) (h : ∀ a ∈ l, f a ≼ g a) :
    (l.map f).sum ≼ (l.map g).sum := by
  induction l with
  | nil => exact nle_refl _
  | cons a l ih =>
    simp only [List.map_cons, List.sum_cons]
    exact nle_add (h a (by simp)) (ih (fun b hb => h b (by simp [hb])))

/-- a partial sum is below a longer partial sum -/
theorem nle_sum_range (g : Nat → K) {m m' : Nat} (h : m ≤ m') :
    ((List.range m).map g).sum ≼ ((List.range m').map g).sum := by
  obtain ⟨d, rfl⟩ := Nat.exists_eq_add_of_le h
  rw [List.range_add, List.map_append, List.sum_append]
  exact ⟨_, rfl⟩

/-! ### diagonal sums: `Σ_{k ≤ n} Σ_{a + b + 1 = k} f a b` is a triangle -/

/-- `Σ_{a < n} Σ_{b < n - a} f a b`: the pairs with `a + b + 1 ≤ n` -/
def tri (f : Nat → Nat → K) (n : Nat) : K :=
  ((List.range n).map fun a => ((List.range (n - a)).map fun b => f a b).sum).sum

theorem diag_eq_tri (f : Nat → Nat → K) (n : Nat) :
    ((List.range (n+1)).map fun k => ((List.range k).map fun a => f a (k-1-a)).sum).sum = tri f n := by
  induction n with
  | zero => simp [tri]
  | succ n ih =>
    rw [List.range_succ, List.map_append, List.sum_append, ih]
    simp only [List.map_cons, List.map_nil, List.sum_cons, List.sum_nil, add_zero,
      Nat.add_sub_cancel]
    unfold tri
    have h1 : ∀ a ∈ List.range (n+1), ((List.range (n + 1 - a)).map fun b => f a b).sum
        = ((List.range (n - a)).map fun b => f a b).sum + f a (n - a) := by
      intro a ha
      have : n + 1 - a = (n - a) + 1 := by have := List.mem_range.mp ha; omega
      rw [this, List.range_succ, List.map_append, List.sum_append]
      simp
    rw [List.map_congr_left h1, List.sum_map_add]
    congr 1
    rw [List.range_succ, List.map_append, List.sum_append]
    simp

theorem tri_le_square (f : Nat → Nat → K) (n : Nat) :
    tri f n ≼ ((List.range (n+1)).map fun a => ((List.range (n+1)).map fun b => f a b).sum).sum := by
  refine nle_trans (nle_sum _ _ _ (fun a _ => ?_)) (nle_sum_range _ (Nat.le_succ n))
  exact nle_sum_range (fun b => f a b) (by omega)

theorem square_le_tri (f : Nat → Nat → K) {m m' n : Nat} (h : m + m' + 1 ≤ n) :
    ((List.range (m+1)).map fun a => ((List.range (m'+1)).map fun b => f a b).sum).sum ≼ tri f n := by
  refine nle_trans (nle_sum _ _ _ (fun a ha => ?_))
    (nle_sum_range (fun a => ((List.range (n - a)).map fun b => f a b).sum) (by omega : m + 1 ≤ n))
  have := List.mem_range.mp ha
  exact nle_sum_range (fun b => f a b) (by omega)

end NLe

/-! ### Cauchy products of stratified families -/
section Conv
variable {σ K : Type} [CommSemiring K]

/-- `Σ_{k ≤ n} P k x` (for `P = Pk A` this is `PN A n x`) -/
def cum (P : Nat → List σ → K) (n : Nat) (x : List σ) : K := ((List.range (n+1)).map fun k => P k x).sum

/-- `Σ_{uv = x} P a u · Q b v` -/
def conv (P Q : Nat → List σ → K) (a b : Nat) (x : List σ) : K :=
  ((splits x).map fun p => P a p.1 * Q b p.2).sum

theorem square_conv (P Q : Nat → List σ → K) (m m' : Nat) (x : List σ) :
    ((List.range (m+1)).map fun a => ((List.range (m'+1)).map fun b => conv P Q a b x).sum).sum
      = ((splits x).map fun p => cum P m p.1 * cum Q m' p.2).sum := by
  unfold conv cum
  have h1 : ∀ a ∈ List.range (m+1),
      ((List.range (m'+1)).map fun b => ((splits x).map fun p => P a p.1 * Q b p.2).sum).sum
        = ((splits x).map fun p => ((List.range (m'+1)).map fun b => P a p.1 * Q b p.2).sum).sum :=
    fun a _ => sum_swap _ _ _
  rw [List.map_congr_left h1, sum_swap]
  apply congrArg
  apply List.map_congr_left
  intro p _
  rw [← List.sum_map_mul_right]
  apply congrArg
  apply List.map_congr_left
  intro a _
  rw [List.sum_map_mul_left]

theorem tri_conv_le (P Q : Nat → List σ → K) (n : Nat) (x : List σ) :
    tri (fun a b => conv P Q a b x) n ≼ ((splits x).map fun p => cum P n p.1 * cum Q n p.2).sum := by
  rw [← square_conv]
  exact tri_le_square _ n

theorem tri_conv_ge (P Q : Nat → List σ → K) {m m' n : Nat} (h : m + m' + 1 ≤ n) (x : List σ) :
    ((splits x).map fun p => cum P m p.1 * cum Q m' p.2).sum ≼ tri (fun a b => conv P Q a b x) n := by
  rw [← square_conv]
  exact square_le_tri _ h

theorem cum_mono (P : Nat → List σ → K) {m n : Nat} (h : m ≤ n) (x : List σ) :
    cum P m x ≼ cum P n x :=
  nle_sum_range (fun k => P k x) (by omega)

end Conv
end Misc2Aux
open Misc2Aux

/-! ### `one` and `star`, exact length -/
section StarPk
variable {ι σ K : Type} [DecidableEq ι] [DecidableEq σ] [CommSemiring K]

/-- `one` accepts exactly the empty string, with one (ε) arc and weight one -/
theorem one_Pk (k : Nat) (x : List σ) :
    Pk (WFSA.one : WFSA Nat σ K) k x = if k = 1 ∧ x = [] then 1 else 0 := by
  unfold WFSA.one
  rw [lift_spec]
  rfl

/-- **`star`**: `A* = 1 + A⁺`, path length by path length (the `1` is a path with one ε arc) -/
theorem star_Pk (A : WFSA ι σ K) (k : Nat) (x : List σ) :
    Pk A.star k x = (if k = 1 ∧ x = [] then 1 else 0) + Pk A.kleenePlus k x := by
  unfold WFSA.star
  rw [union_Pk, one_Pk]

theorem star_PN (A : WFSA ι σ K) (n : Nat) (x : List σ) :
    PN A.star n x = (if 1 ≤ n ∧ x = [] then 1 else 0) + PN A.kleenePlus n x := by
  unfold WFSA.star WFSA.one
  rw [union_PN, lift_spec_PN]
  rfl

theorem PN_eq_cum (A : WFSA ι σ K) (n : Nat) (x : List σ) : PN A n x = cum (Pk A) n x := PN_eq A n x

/-- `PN` grows with the level -/
theorem PN_mono (A : WFSA ι σ K) {m n : Nat} (h : m ≤ n) (x : List σ) : PN A m x ≼ PN A n x := by
  rw [PN_eq_cum, PN_eq_cum]; exact cum_mono _ h x

end StarPk

/-! ### product -/
section ConcatPN
variable {ι κ σ K : Type} [DecidableEq ι] [DecidableEq κ] [DecidableEq σ] [CommSemiring K]

/-- the stratified weight of a product is the sum over the pairs of path lengths `a + b + 1 ≤ n` -/
theorem concat_PN_tri (A : WFSA ι σ K) (B : WFSA κ σ K) (n : Nat) (x : List σ) :
    PN (A.concat B) n x = tri (fun a b => conv (Pk A) (Pk B) a b x) n := by
  rw [PN_eq, ← diag_eq_tri]
  simp only [concat_Pk, conv]

/-- **product, upper bound**: `PN (A·B) n x ≼ Σ_{uv = x} PN A n u · PN B n v` -/
theorem concat_PN_le (A : WFSA ι σ K) (B : WFSA κ σ K) (n : Nat) (x : List σ) :
    PN (A.concat B) n x ≼ ((splits x).map fun p => PN A n p.1 * PN B n p.2).sum := by
  rw [concat_PN_tri]
  simp only [PN_eq_cum]
  exact tri_conv_le _ _ n x

/-- **product, lower bound**: `Σ_{uv = x} PN A m u · PN B m' v ≼ PN (A·B) n x` once `m + m' + 1 ≤ n`
(the `+ 1` is the ε bridge) -/
theorem concat_PN_ge (A : WFSA ι σ K) (B : WFSA κ σ K) {m m' n : Nat} (h : m + m' + 1 ≤ n)
    (x : List σ) :
    ((splits x).map fun p => PN A m p.1 * PN B m' p.2).sum ≼ PN (A.concat B) n x := by
  rw [concat_PN_tri]
  simp only [PN_eq_cum]
  exact tri_conv_ge _ _ h x

/-- **the product law holds in the limit**: if `≼` is antisymmetric and the weights of the factors
on the pieces of `x` have stabilised from level `N` on, then the product's weight of `x` is the
Cauchy product from level `2N + 1` on -/
theorem concat_PN_limit (A : WFSA ι σ K) (B : WFSA κ σ K)
    (hanti : ∀ a b : K, a ≼ b → b ≼ a → a = b) (N : Nat) (x : List σ) (LA LB : List σ → K)
    (hA : ∀ p ∈ splits x, ∀ m, N ≤ m → PN A m p.1 = LA p.1)
    (hB : ∀ p ∈ splits x, ∀ m, N ≤ m → PN B m p.2 = LB p.2) (n : Nat) (hn : 2 * N + 1 ≤ n) :
    PN (A.concat B) n x = ((splits x).map fun p => LA p.1 * LB p.2).sum := by
  have h1 := concat_PN_le A B n x
  have h2 := concat_PN_ge A B (m := N) (m' := N) (n := n) (by omega) x
  rw [List.map_congr_left (fun p hp => by rw [hA p hp n (by omega), hB p hp n (by omega)])] at h1
  rw [List.map_congr_left (fun p hp => by rw [hA p hp N (Nat.le_refl _), hB p hp N (Nat.le_refl _)])] at h2
  exact hanti _ _ h1 h2

end ConcatPN

/-! ### `kleene_plus` and `star` -/
section StarPN
variable {ι σ K : Type} [DecidableEq ι] [DecidableEq σ] [CommSemiring K]

theorem kleenePlus_PN_tri (A : WFSA ι σ K) (n : Nat) (x : List σ) :
    PN A.kleenePlus n x = PN A n x + tri (fun a b => conv (Pk A) (Pk A.kleenePlus) a b x) n := by
  rw [PN_eq, PN_eq, ← diag_eq_tri, ← List.sum_map_add]
  apply congrArg
  apply List.map_congr_left
  intro k _
  rw [kleenePlus_Pk]
  rfl

/-- **`A⁺ ≼ A + A·A⁺`** at level `n` -/
theorem kleenePlus_PN_le (A : WFSA ι σ K) (n : Nat) (x : List σ) :
    PN A.kleenePlus n x
      ≼ PN A n x + ((splits x).map fun p => PN A n p.1 * PN A.kleenePlus n p.2).sum := by
  rw [kleenePlus_PN_tri]
  simp only [PN_eq_cum]
  exact nle_add (nle_refl _) (tri_conv_le _ _ n x)

/-- **`A + A·A⁺ ≼ A⁺`**, from levels `m`, `m'` to any level `n ≥ m + m' + 1` -/
theorem kleenePlus_PN_ge (A : WFSA ι σ K) {m m' n : Nat} (h : m + m' + 1 ≤ n) (x : List σ) :
    PN A m x + ((splits x).map fun p => PN A m p.1 * PN A.kleenePlus m' p.2).sum
      ≼ PN A.kleenePlus n x := by
  rw [kleenePlus_PN_tri]
  refine nle_add (PN_mono A (by omega) x) ?_
  simp only [PN_eq_cum]
  exact tri_conv_ge _ _ h x

/-- `Σ_{uv = x} F u · [c ∧ v = ε] = [c] · F x` -/
theorem Misc2Aux.sum_splits_right_ind (c : Prop) [Decidable c] (x : List σ) (F : List σ → K) :
    ((splits x).map fun p => F p.1 * (if c ∧ p.2 = [] then 1 else 0)).sum = if c then F x else 0 := by
  by_cases hc : c
  · simp only [hc, true_and, if_true]
    exact sum_splits_right_nil x F
  · simp [hc]

/-- `Σ_{uv = x} PN A m u · PN A* m' v` in terms of `A⁺` -/
theorem star_conv (A : WFSA ι σ K) (m m' : Nat) (x : List σ) :
    ((splits x).map fun p => PN A m p.1 * PN A.star m' p.2).sum
      = (if 1 ≤ m' then PN A m x else 0)
        + ((splits x).map fun p => PN A m p.1 * PN A.kleenePlus m' p.2).sum := by
  simp only [star_PN, mul_add, List.sum_map_add]
  rw [Misc2Aux.sum_splits_right_ind (1 ≤ m') x (fun u => PN A m u)]

/-- **`A* ≼ 1 + A·A*`** at every level `n ≥ 1` -/
theorem star_PN_le (A : WFSA ι σ K) (n : Nat) (hn : 1 ≤ n) (x : List σ) :
    PN A.star n x
      ≼ (if x = [] then 1 else 0) + ((splits x).map fun p => PN A n p.1 * PN A.star n p.2).sum := by
  rw [star_conv, star_PN, if_pos hn]
  refine nle_add ?_ (kleenePlus_PN_le A n x)
  simp only [hn, true_and]
  exact nle_refl _

/-- **`1 + A·A* ≼ A*`**, from levels `m`, `m'` to any level `n ≥ m + m' + 1` -/
theorem star_PN_ge (A : WFSA ι σ K) {m m' n : Nat} (h : m + m' + 1 ≤ n) (x : List σ) :
    (if x = [] then 1 else 0) + ((splits x).map fun p => PN A m p.1 * PN A.star m' p.2).sum
      ≼ PN A.star n x := by
  rw [star_conv, star_PN]
  have hn : 1 ≤ n := by omega
  simp only [hn, true_and]
  refine nle_add (nle_refl _) (nle_trans (nle_add ?_ (nle_refl _)) (kleenePlus_PN_ge A h x))
  split
  · exact nle_refl _
  · exact nle_zero _

/-- **the star law holds in the limit**: if `≼` is antisymmetric and the weights of `A` and of `A*` on
the pieces of `x` have stabilised from level `N` on, the limits satisfy `A* = 1 + A·A*` -/
theorem star_PN_limit (A : WFSA ι σ K) (hanti : ∀ a b : K, a ≼ b → b ≼ a → a = b) (N : Nat)
    (x : List σ) (LA LS : List σ → K)
    (hA : ∀ p ∈ splits x, ∀ m, N ≤ m → PN A m p.1 = LA p.1)
    (hS : ∀ u, (u = x ∨ ∃ p ∈ splits x, p.2 = u) → ∀ m, N ≤ m → PN A.star m u = LS u) :
    LS x = (if x = [] then 1 else 0) + ((splits x).map fun p => LA p.1 * LS p.2).sum := by
  have h1 := star_PN_le A (2 * N + 1) (by omega) x
  have h2 := star_PN_ge A (m := N) (m' := N) (n := 2 * N + 1) (by omega) x
  rw [List.map_congr_left (fun p hp => by
    rw [hA p hp (2 * N + 1) (by omega), hS p.2 (Or.inr ⟨p, hp, rfl⟩) (2 * N + 1) (by omega)])] at h1
  rw [List.map_congr_left (fun p hp => by
    rw [hA p hp N (Nat.le_refl _), hS p.2 (Or.inr ⟨p, hp, rfl⟩) N (Nat.le_refl _)])] at h2
  rw [hS x (Or.inl rfl) (2 * N + 1) (by omega)] at h1 h2
  exact hanti _ _ h1 h2

/-- … and so do the limits of `A⁺`: `A⁺ = A + A·A⁺` -/
theorem kleenePlus_PN_limit (A : WFSA ι σ K) (hanti : ∀ a b : K, a ≼ b → b ≼ a → a = b) (N : Nat)
    (x : List σ) (LA LP : List σ → K)
    (hA : ∀ u, (u = x ∨ ∃ p ∈ splits x, p.1 = u) → ∀ m, N ≤ m → PN A m u = LA u)
    (hP : ∀ u, (u = x ∨ ∃ p ∈ splits x, p.2 = u) → ∀ m, N ≤ m → PN A.kleenePlus m u = LP u) :
    LP x = LA x + ((splits x).map fun p => LA p.1 * LP p.2).sum := by
  have h1 := kleenePlus_PN_le A (2 * N + 1) x
  have h2 := kleenePlus_PN_ge A (m := N) (m' := N) (n := 2 * N + 1) (by omega) x
  rw [List.map_congr_left (fun p hp => by
    rw [hA p.1 (Or.inr ⟨p, hp, rfl⟩) (2 * N + 1) (by omega),
      hP p.2 (Or.inr ⟨p, hp, rfl⟩) (2 * N + 1) (by omega)])] at h1
  rw [List.map_congr_left (fun p hp => by
    rw [hA p.1 (Or.inr ⟨p, hp, rfl⟩) N (Nat.le_refl _),
      hP p.2 (Or.inr ⟨p, hp, rfl⟩) N (Nat.le_refl _)])] at h2
  rw [hP x (Or.inl rfl) (2 * N + 1) (by omega), hA x (Or.inl rfl) (2 * N + 1) (by omega)] at h1
  rw [hP x (Or.inl rfl) (2 * N + 1) (by omega), hA x (Or.inl rfl) N (Nat.le_refl _)] at h2
  exact hanti _ _ h1 h2

end StarPN

/-! ### non-vacuity (`exA`, `exF` of `Proofs/Wfsa.lean`) -/
section Examples

example : Pk exF.star 1 ([] : List Nat) = 1 + Pk exF.kleenePlus 1 [] := star_Pk exF 1 []
example : Pk exF.star 1 ([] : List Nat) = 1 + Pk exF.kleenePlus 1 [] ∧ Pk exF.star 3 [7, 7] = 1209 := by
  decide
/-- the sandwich is strict in general: levels `1,1 → 3` -/
example : ((splits [7, 7]).map fun p => PN exA 1 p.1 * PN exF 1 p.2).sum ≤ PN (exA.concat exF) 3 [7, 7]
    ∧ PN (exA.concat exF) 3 [7, 7] ≤ ((splits [7, 7]).map fun p => PN exA 3 p.1 * PN exF 3 p.2).sum := by
  decide
example : ((splits [7, 7]).map fun p => PN exA 1 p.1 * PN exF 1 p.2).sum ≼ PN (exA.concat exF) 3 [7, 7] :=
  concat_PN_ge exA exF (by omega) [7, 7]
/-- over `ℕ` the natural preorder is the usual order, hence antisymmetric -/
example : ∀ a b : Nat, a ≼ b → b ≼ a → a = b := by
  rintro a b ⟨c, rfl⟩ ⟨d, h⟩; omega

end Examples
end Genlm
