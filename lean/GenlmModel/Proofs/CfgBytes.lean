import GenlmModel.Model.Transform
import GenlmModel.Proofs.TrimSem
import GenlmModel.Proofs.Fast
import GenlmModel.Proofs.Wfsa2
import Mathlib.Data.List.Nodup
import Mathlib.Data.List.Perm.Lattice
import Mathlib.Data.List.ProdSigma

/-! # `CFG.to_bytes` (property C17, grammar part)

Model: `cfgToBytes enc G` (`Model/Transform.lean`): every occurrence of a terminal `y ∈ G.V` in a rule
body is replaced by the list `enc y` (Python: `list(y.encode("utf-8"))`), the other body symbols and
the heads are kept, the new terminal set is the set of bytes so produced, rules of weight zero are
dropped (`CFG.add`).  Terminals, bytes and nonterminals live in one symbol type, as in Python.

Main statements (any commutative semiring, any grammar, any level `n`, **any** symbol `X`):

* `cfgToBytes_WN` — `WN (cfgToBytes enc G) n X bs = Σ_{x ∈ decs enc G.V.eraseDups |bs| bs} WN G n X x`:
  the byte grammar gives every byte string the total weight of its decodings, *level by level* (the
  derivation trees have the same height);
* `cfgToBytes_WN_of` — the same for any duplicate-free enumeration `D bs` of the decodings;
* `cfgToBytes_WN_not_encoding` — a byte string that is not an encoding weighs `0`;
* `cfgToBytes_WN_unique`, `cfgToBytes_WN_encode` — with a uniquely decodable encoder (UTF-8) the
  byte grammar gives `x.flatMap enc` exactly the weight `G` gives `x`.

Hypotheses (`BytesOk`, decidable): terminals have non-empty encodings, and **no non-terminal symbol
occurring in a body of `G` is a byte** of the new grammar (Python: bytes are `int`s, nonterminals are
not).  Without the second one the statement is false (`exBytesBad`): a nonterminal whose name is
also a produced byte becomes a terminal of the byte grammar.  Nothing is required of the heads.
Helpers in `Genlm.Misc2Aux`. -/
namespace Genlm
set_option linter.unusedSectionVars false
open WfsaAux UnfoldAux Wfsa2Bytes

namespace Misc2Aux

/-! ### list enumerations of decodings -/
section Dec
variable {σ β : Type}

/-- `D bs` enumerates, without repetition, the strings over `alph` whose encoding is `bs` -/
structure DecList (enc : σ → List β) (alph : List σ) (D : List β → List (List σ)) : Prop where
  nodup : ∀ bs, (D bs).Nodup
  mem : ∀ bs x, x ∈ D bs ↔ (∀ a ∈ x, a ∈ alph) ∧ x.flatMap enc = bs

theorem nodup_splits {α : Type} (x : List α) : (splits x).Nodup := by
  induction x with
  | nil => simp [splits]
  | cons a x ih =>
    rw [splits, List.nodup_cons]
    refine ⟨?_, ?_⟩
    · intro h
      obtain ⟨p, _, hp⟩ := List.mem_map.mp h
      cases hp
    · refine ih.map ?_
      intro p q h
      simp only [Prod.mk.injEq, List.cons.injEq, true_and] at h
      exact Prod.ext h.1 h.2

/-- pairs of decodings of the two halves of a cut of `bs` = cuts of the decodings of `bs` -/
theorem decs_conv_perm {enc : σ → List β} {alph : List σ} {D : List β → List (List σ)}
    (hD : DecList enc alph D) (bs : List β) :
    ((splits bs).flatMap fun uv => (D uv.1) ×ˢ (D uv.2)).Perm ((D bs).flatMap splits) := by
  rw [List.perm_ext_iff_of_nodup]
  · rintro ⟨p, q⟩
    simp only [List.mem_flatMap, List.mem_product, Prod.exists, mem_splits, hD.mem]
    constructor
    · rintro ⟨u, v, huv, ⟨hp, rfl⟩, ⟨hq, rfl⟩⟩
      refine ⟨p ++ q, ⟨?_, ?_⟩, rfl⟩
      · intro a ha
        rcases List.mem_append.mp ha with h | h
        · exact hp a h
        · exact hq a h
      · rw [List.flatMap_append, huv]
    · rintro ⟨x, ⟨hx, hb⟩, rfl⟩
      refine ⟨p.flatMap enc, q.flatMap enc, ?_, ⟨fun a ha => hx a (by simp [ha]), rfl⟩,
        ⟨fun a ha => hx a (by simp [ha]), rfl⟩⟩
      rw [← List.flatMap_append, hb]
  · rw [List.nodup_flatMap]
    refine ⟨fun uv _ => (hD.nodup _).product (hD.nodup _), ?_⟩
    refine (nodup_splits bs).imp ?_
    rintro ⟨u, v⟩ ⟨u', v'⟩ hne
    simp only [Function.onFun]
    rw [List.disjoint_left]
    rintro ⟨p, q⟩ h1 h2
    rw [List.mem_product, hD.mem, hD.mem] at h1 h2
    apply hne
    rw [← h1.1.2, ← h1.2.2, ← h2.1.2, ← h2.2.2]
  · rw [List.nodup_flatMap]
    refine ⟨fun x _ => nodup_splits x, ?_⟩
    refine (hD.nodup bs).imp ?_
    intro x y hne
    simp only [Function.onFun]
    rw [List.disjoint_left]
    rintro ⟨p, q⟩ h1 h2
    rw [mem_splits] at h1 h2
    exact hne (h1.symm.trans h2)

end Dec

section Sums
variable {σ β K : Type} [CommSemiring K]

theorem sum_product {α γ : Type} (l : List α) (m : List γ) (A : α → K) (B : γ → K) :
    ((l ×ˢ m).map fun pq => A pq.1 * B pq.2).sum = (l.map A).sum * (m.map B).sum := by
  induction l with
  | nil => simp
  | cons a l ih =>
    rw [List.product_cons, List.map_append, List.sum_append, ih, List.map_cons, List.sum_cons,
      add_mul, List.map_map]
    congr 1
    rw [← List.sum_map_mul_left]
    rfl

/-- the convolution over the cuts of a byte string of two decoding sums is the decoding sum of the
convolution -/
theorem decs_conv {enc : σ → List β} {alph : List σ} {D : List β → List (List σ)}
    (hD : DecList enc alph D) (A B : List σ → K) (bs : List β) :
    ((splits bs).map fun uv => ((D uv.1).map A).sum * ((D uv.2).map B).sum).sum
      = ((D bs).map fun x => ((splits x).map fun pq => A pq.1 * B pq.2).sum).sum := by
  rw [← sum_flatMap (D bs) splits (fun pq => A pq.1 * B pq.2),
    ← ((decs_conv_perm hD bs).map _).sum_eq, sum_flatMap]
  apply congrArg
  apply List.map_congr_left
  intro uv _
  rw [sum_product]

/-- a sum of indicators of one string over a decoding list -/
theorem sum_decs_indicator_pos [DecidableEq σ] {enc : σ → List β} {alph : List σ}
    {D : List β → List (List σ)} (hD : DecList enc alph D) (y : List σ) (bs : List β)
    (h : y ∈ D bs) : ((D bs).map fun x => if x = y then (1 : K) else 0).sum = 1 := by
  have := sum_ite_eq_nodup (D bs) (hD.nodup bs) y (fun _ => (1 : K))
  rw [if_pos h] at this
  refine Eq.trans ?_ this
  apply congrArg
  apply List.map_congr_left
  intro x _
  by_cases h : x = y
  · rw [if_pos h, if_pos h.symm]
  · rw [if_neg h, if_neg (fun h' => h h'.symm)]

omit [CommSemiring K] in
theorem sum_decs_indicator_neg [DecidableEq σ] [CommSemiring K] (D : List β → List (List σ))
    (y : List σ) (bs : List β)
    (h : y ∉ D bs) : ((D bs).map fun x => if x = y then (1 : K) else 0).sum = 0 := by
  apply sum_map_zero
  intro x hx
  rw [if_neg]
  rintro rfl
  exact h hx

end Sums

/-! ### bodies -/
section Body
variable {σ K : Type} [DecidableEq σ] [CommSemiring K] [DecidableEq K]

/-- a body made of terminals only yields exactly itself -/
theorem Wbody_terminals (V : List σ) (f : σ → List σ → K) (ys : List σ) (h : ∀ y ∈ ys, y ∈ V)
    (u : List σ) : Wbody V f ys u = if u = ys then 1 else 0 := by
  rw [← WbodyFast_eq]
  induction ys generalizing u with
  | nil => rfl
  | cons y ys ih =>
    have hy : y ∈ V := h y (by simp)
    cases u with
    | nil => simp [WbodyFast, hy]
    | cons a u' =>
      simp only [WbodyFast, if_pos hy]
      by_cases ha : a = y
      · rw [if_pos ha, ih (fun z hz => h z (by simp [hz]))]
        subst ha; simp
      · rw [if_neg ha, if_neg]
        intro h'; exact ha (List.cons.inj h').1

/-- the expansion of one body symbol by `cfgToBytes` -/
def expand (enc : σ → List σ) (V : List σ) (y : σ) : List σ := if y ∈ V then enc y else [y]

/-- one symbol: its expansion yields a byte string with the total weight of the decodings the symbol
yields -/
theorem Wbody_expand_sym {enc : σ → List σ} {V V' : List σ} {D : List σ → List (List σ)}
    (hD : DecList enc V D) (f f' : σ → List σ → K) (s : σ)
    (hT : s ∈ V → ∀ b ∈ enc s, b ∈ V') (hN : s ∉ V → s ∉ V')
    (hf : s ∉ V → ∀ u, f' s u = ((D u).map fun p => f s p).sum) (u : List σ) :
    Wbody V' f' (expand enc V s) u = ((D u).map fun p => Wsym V f s p).sum := by
  by_cases hs : s ∈ V
  · have h1 : expand enc V s = enc s := if_pos hs
    rw [h1, Wbody_terminals V' f' (enc s) (hT hs)]
    have h2 : ((D u).map fun p => Wsym V f s p) = (D u).map fun p => if p = [s] then (1 : K) else 0 := by
      apply List.map_congr_left; intro p _; simp only [Wsym, if_pos hs]
    rw [h2]
    by_cases hu : u = enc s
    · rw [if_pos hu, sum_decs_indicator_pos hD]
      rw [hD.mem]
      exact ⟨by simpa using hs, by simp [hu]⟩
    · rw [if_neg hu, sum_decs_indicator_neg]
      rw [hD.mem]
      rintro ⟨_, h⟩
      apply hu
      simpa using h.symm
  · have h1 : expand enc V s = [s] := if_neg hs
    rw [h1, Wbody_singleton]
    simp only [Wsym, if_neg hs, if_neg (hN hs)]
    exact hf hs u

/-- a whole body -/
theorem Wbody_expand {enc : σ → List σ} {V V' : List σ} {D : List σ → List (List σ)}
    (hD : DecList enc V D) (f f' : σ → List σ → K) (body : List σ)
    (hT : ∀ s ∈ body, s ∈ V → ∀ b ∈ enc s, b ∈ V') (hN : ∀ s ∈ body, s ∉ V → s ∉ V')
    (hf : ∀ s ∈ body, s ∉ V → ∀ u, f' s u = ((D u).map fun p => f s p).sum) (bs : List σ) :
    Wbody V' f' (body.flatMap (expand enc V)) bs = ((D bs).map fun x => Wbody V f body x).sum := by
  induction body generalizing bs with
  | nil =>
    simp only [List.flatMap_nil, Wbody]
    by_cases hb : bs = []
    · rw [if_pos hb, sum_decs_indicator_pos hD]
      rw [hD.mem]; simp [hb]
    · rw [if_neg hb, sum_decs_indicator_neg]
      rw [hD.mem]
      rintro ⟨_, h⟩
      exact hb (by simpa using h.symm)
  | cons s ss ih =>
    rw [List.flatMap_cons, Wbody_append]
    have h1 : ∀ uv ∈ splits bs,
        Wbody V' f' (expand enc V s) uv.1 * Wbody V' f' (ss.flatMap (expand enc V)) uv.2
          = ((D uv.1).map fun p => Wsym V f s p).sum * ((D uv.2).map fun q => Wbody V f ss q).sum := by
      intro uv _
      rw [Wbody_expand_sym hD f f' s (hT s (by simp)) (hN s (by simp)) (hf s (by simp)),
        ih (fun t ht => hT t (by simp [ht])) (fun t ht => hN t (by simp [ht]))
          (fun t ht => hf t (by simp [ht]))]
    rw [List.map_congr_left h1, decs_conv hD]
    simp only [Wbody, lsum_eq_sum]

/-- bodies only yield strings of terminals, when the table does -/
theorem Wbody_eq_zero_of_not_terminals (V : List σ) (f : σ → List σ → K)
    (hf : ∀ s u, (∃ a ∈ u, a ∉ V) → f s u = 0) (body : List σ) (x : List σ)
    (hx : ∃ a ∈ x, a ∉ V) : Wbody V f body x = 0 := by
  induction body generalizing x with
  | nil =>
    obtain ⟨a, ha, _⟩ := hx
    simp only [Wbody]
    rw [if_neg]
    rintro rfl; cases ha
  | cons s ss ih =>
    simp only [Wbody, lsum_eq_sum]
    apply sum_map_zero
    rintro ⟨u, v⟩ huv
    rw [mem_splits] at huv
    obtain ⟨a, ha, haV⟩ := hx
    rw [← huv, List.mem_append] at ha
    rcases ha with ha | ha
    · have : Wsym V f s u = 0 := by
        unfold Wsym
        split
        · next hs =>
          rw [if_neg]
          rintro rfl
          exact haV (by rw [List.mem_singleton.mp ha]; exact hs)
        · exact hf s u ⟨a, ha, haV⟩
      simp only [this, zero_mul]
    · simp only [ih v ⟨a, ha, haV⟩, mul_zero]

/-- a grammar only derives strings of terminals -/
theorem WN_eq_zero_of_not_terminals (G : CFG σ K) (n : Nat) (X : σ) (x : List σ)
    (hx : ∃ a ∈ x, a ∉ G.V) : WN G n X x = 0 := by
  induction n generalizing X x with
  | zero => rfl
  | succ n ih =>
    simp only [WN, lsum_eq_sum]
    apply sum_map_zero
    intro r _
    rw [Wbody_eq_zero_of_not_terminals G.V (WN G n) (fun s u hu => ih s u hu) r.body x hx, mul_zero]

end Body
end Misc2Aux
open Misc2Aux

section Main
variable {σ K : Type} [DecidableEq σ] [DecidableEq K] [CommSemiring K]

/-- the side conditions of `CFG.to_bytes`: every terminal has at least one byte, and no non-terminal
symbol of a rule body is one of the bytes produced (decidable) -/
def BytesOk (enc : σ → List σ) (G : CFG σ K) : Prop :=
  (∀ a ∈ G.V, enc a ≠ []) ∧
    ∀ r ∈ G.rules, ∀ y ∈ r.body, y ∉ G.V → y ∉ (cfgToBytes enc G).V

instance (enc : σ → List σ) (G : CFG σ K) : Decidable (BytesOk enc G) := by
  unfold BytesOk; infer_instance

/-- the bytes of a terminal occurring in a body are terminals of the byte grammar -/
theorem mem_cfgToBytes_V (enc : σ → List σ) (G : CFG σ K)
    (r : Rule σ K) (hr : r ∈ G.rules)
    (y : σ) (hy : y ∈ r.body) (hV : y ∈ G.V) (b : σ) (hb : b ∈ enc y) : b ∈ (cfgToBytes enc G).V := by
  simp only [cfgToBytes, List.mem_eraseDups, List.mem_flatMap]
  exact ⟨r, hr, y, hy, by rw [if_pos hV]; exact hb⟩

/-- a sufficient, more readable form of `BytesOk`: the bytes of the terminals are not body symbols
other than terminals (e.g. because bytes are of a different kind than nonterminal names) -/
theorem bytesOk_of_disjoint (enc : σ → List σ) (G : CFG σ K) (hE : ∀ a ∈ G.V, enc a ≠ [])
    (h : ∀ a ∈ G.V, ∀ b ∈ enc a, ∀ r ∈ G.rules, ∀ y ∈ r.body, y ∉ G.V → b ≠ y) : BytesOk enc G := by
  refine ⟨hE, ?_⟩
  intro r hr y hy hV hmem
  simp only [cfgToBytes, List.mem_eraseDups, List.mem_flatMap] at hmem
  obtain ⟨r', _, a, _, ha⟩ := hmem
  by_cases haV : a ∈ G.V
  · rw [if_pos haV] at ha
    exact h a haV y ha r hr y hy hV rfl
  · rw [if_neg haV] at ha; cases ha

/-- one step of the recursion, for an arbitrary enumeration `D` of the decodings -/
theorem cfgToBytes_step (enc : σ → List σ) (G : CFG σ K) (hG : BytesOk enc G)
    (D : List σ → List (List σ)) (hD : DecList enc G.V D) (f f' : σ → List σ → K)
    (hf : ∀ s u, f' s u = ((D u).map fun p => f s p).sum) (X : σ) (bs : List σ) :
    stepL (cfgToBytes enc G).V (cfgToBytes enc G).rules f' X bs
      = ((D bs).map fun x => stepL G.V G.rules f X x).sum := by
  have hrules : (cfgToBytes enc G).rules
      = mkRules (G.rules.map fun r => ⟨r.w, r.head, r.body.flatMap (expand enc G.V)⟩) := rfl
  rw [hrules, stepL_mkRules]
  unfold stepL
  rw [List.filter_map, List.map_map]
  have hfil : G.rules.filter ((fun r : Rule σ K => decide (r.head = X)) ∘
      fun r => ⟨r.w, r.head, r.body.flatMap (expand enc G.V)⟩)
        = G.rules.filter (fun r => decide (r.head = X)) := rfl
  rw [hfil]
  have h1 : ∀ r ∈ G.rules.filter (fun r => decide (r.head = X)),
      ((fun r : Rule σ K => r.w * Wbody (cfgToBytes enc G).V f' r.body bs) ∘
        fun r => ⟨r.w, r.head, r.body.flatMap (expand enc G.V)⟩) r
      = ((D bs).map fun x => r.w * Wbody G.V f r.body x).sum := by
    intro r hr
    have hr' : r ∈ G.rules := (List.mem_filter.mp hr).1
    simp only [Function.comp]
    rw [Wbody_expand hD f f' r.body
      (fun s hs hV b hb => mem_cfgToBytes_V enc G r hr' s hs hV b hb)
      (fun s hs hV => hG.2 r hr' s hs hV) (fun s _ _ u => hf s u), List.sum_map_mul_left]
  rw [List.map_congr_left h1]
  exact sum_swap _ _ _

/-- **`CFG.to_bytes` is correct, for any duplicate-free enumeration `D` of the decodings**: at every
symbol and every level the byte grammar gives a byte string the total weight of its decodings -/
theorem cfgToBytes_WN_of (enc : σ → List σ) (G : CFG σ K) (hG : BytesOk enc G)
    (D : List σ → List (List σ)) (hD : DecList enc G.V D) (n : Nat) (X : σ) (bs : List σ) :
    WN (cfgToBytes enc G) n X bs = ((D bs).map fun x => WN G n X x).sum := by
  induction n generalizing X bs with
  | zero => simp [WN]
  | succ n ih =>
    rw [WN_succ, cfgToBytes_step enc G hG D hD (WN G n) (WN (cfgToBytes enc G) n) ih]
    simp only [WN_succ]

/-- the decodings of `Model/WfsaOps2.lean` (over the terminals of `G` without repetitions, fuel
`|bs|`) are such an enumeration -/
theorem decList_decs (enc : σ → List σ) (V : List σ) (hE : ∀ a ∈ V, enc a ≠ []) :
    DecList enc V (fun bs => decs enc V.eraseDups bs.length bs) where
  nodup := fun bs => nodup_decs enc _ (nodup_eraseDups V) _ bs
  mem := fun bs x => by
    rw [mem_decs enc V.eraseDups (fun a ha => hE a (List.mem_eraseDups.mp ha)) bs.length bs x
      (Nat.le_refl _)]
    simp only [List.mem_eraseDups]

/-- **C17, `CFG.to_bytes`**: the byte-level grammar gives every byte string the total weight of the
symbol strings whose encoding it is — for every symbol `X` and every level `n` -/
theorem cfgToBytes_WN (enc : σ → List σ) (G : CFG σ K) (hG : BytesOk enc G) (n : Nat) (X : σ)
    (bs : List σ) :
    WN (cfgToBytes enc G) n X bs
      = ((decs enc G.V.eraseDups bs.length bs).map fun x => WN G n X x).sum :=
  cfgToBytes_WN_of enc G hG _ (decList_decs enc G.V hG.1) n X bs

/-- a byte string that is not the encoding of a terminal string weighs `0` -/
theorem cfgToBytes_WN_not_encoding (enc : σ → List σ) (G : CFG σ K) (hG : BytesOk enc G) (n : Nat)
    (X : σ) (bs : List σ) (h : ∀ x : List σ, (∀ a ∈ x, a ∈ G.V) → x.flatMap enc ≠ bs) :
    WN (cfgToBytes enc G) n X bs = 0 := by
  rw [cfgToBytes_WN enc G hG]
  have : decs enc G.V.eraseDups bs.length bs = [] := by
    rw [List.eq_nil_iff_forall_not_mem]
    intro x hx
    have := ((decList_decs enc G.V hG.1).mem bs x).mp hx
    exact h x this.1 this.2
  rw [this]; rfl

/-- a byte string with a single decoding weighs what its decoding weighs -/
theorem cfgToBytes_WN_unique (enc : σ → List σ) (G : CFG σ K) (hG : BytesOk enc G) (n : Nat)
    (X : σ) (x : List σ) (hx : ∀ a ∈ x, a ∈ G.V)
    (hU : ∀ x' : List σ, (∀ a ∈ x', a ∈ G.V) → x'.flatMap enc = x.flatMap enc → x' = x) :
    WN (cfgToBytes enc G) n X (x.flatMap enc) = WN G n X x := by
  rw [cfgToBytes_WN enc G hG]
  have hD := decList_decs enc G.V hG.1
  have : decs enc G.V.eraseDups (x.flatMap enc).length (x.flatMap enc) = [x] := by
    apply eq_singleton_of_nodup _ _ (hD.nodup _)
    · exact (hD.mem _ x).mpr ⟨hx, rfl⟩
    · intro y hy
      have := (hD.mem _ y).mp hy
      exact hU y this.1 this.2
  rw [this]; simp

/-- for a uniquely decodable encoder (UTF-8) the byte grammar gives the encoding of any string `x`
the weight `G` gives `x` -/
theorem cfgToBytes_WN_encode (enc : σ → List σ) (G : CFG σ K)
    (hB : ∀ r ∈ G.rules, ∀ y ∈ r.body, y ∉ G.V → y ∉ (cfgToBytes enc G).V)
    (hU : ∀ x x' : List σ, x.flatMap enc = x'.flatMap enc → x = x') (n : Nat) (X : σ) (x : List σ) :
    WN (cfgToBytes enc G) n X (x.flatMap enc) = WN G n X x := by
  have hE : ∀ a ∈ G.V, enc a ≠ [] := by
    intro a _ h
    have := hU [a] [] (by simp [h])
    cases this
  have hG : BytesOk enc G := ⟨hE, hB⟩
  by_cases hx : ∀ a ∈ x, a ∈ G.V
  · exact cfgToBytes_WN_unique enc G hG n X x hx (fun x' _ h => hU x' x h)
  · rw [cfgToBytes_WN_not_encoding enc G hG, WN_eq_zero_of_not_terminals G n X x (by simpa using hx)]
    intro x' hx' h
    exact hx (hU x' x h ▸ hx')

/-- … in particular for a prefix-free encoder with non-empty code words -/
theorem cfgToBytes_WN_prefixFree (enc : σ → List σ) (G : CFG σ K)
    (hB : ∀ r ∈ G.rules, ∀ y ∈ r.body, y ∉ G.V → y ∉ (cfgToBytes enc G).V)
    (hP : PrefixFree enc) (hE : ∀ a, enc a ≠ []) (n : Nat) (X : σ) (x : List σ) :
    WN (cfgToBytes enc G) n X (x.flatMap enc) = WN G n X x :=
  cfgToBytes_WN_encode enc G hB (flatMap_injective_of_prefixFree enc hP hE) n X x

end Main

/-! ### non-vacuity -/
namespace Misc2Aux
section Examples

/-- terminals `0` ("a"), `1` ("b"), `2` ("ab"), `3` ("€"); nonterminals `10`, `11` -/
def exBytesG : CFG Nat Nat :=
  ⟨10, [0, 1, 2, 3], [⟨2, 10, [0, 10]⟩, ⟨3, 10, [3]⟩, ⟨5, 10, [11, 1]⟩, ⟨7, 11, [2]⟩, ⟨1, 11, [0]⟩,
    ⟨0, 10, [1]⟩]⟩

example : BytesOk exEnc exBytesG := by decide
example : (cfgToBytes exEnc exBytesG).V = [97, 226, 130, 172, 98] ∧ (cfgToBytes exEnc exBytesG).rules =
    [⟨2, 10, [97, 10]⟩, ⟨3, 10, [226, 130, 172]⟩, ⟨5, 10, [11, 98]⟩, ⟨7, 11, [97, 98]⟩,
      ⟨1, 11, [97]⟩] := by decide
/-- a single decoding -/
example : decs exEnc exBytesG.V.eraseDups 4 [97, 226, 130, 172] = [[0, 3]] ∧
    WN (cfgToBytes exEnc exBytesG) 3 10 [97, 226, 130, 172] = 6 ∧ WN exBytesG 3 10 [0, 3] = 6 := by
  decide
/-- an ambiguous byte string: "a"·"b"·"b" and "ab"·"b" -/
example : decs exEnc exBytesG.V.eraseDups 3 [97, 98, 98] = [[0, 1, 1], [2, 1]] ∧
    WN (cfgToBytes exEnc exBytesG) 3 10 [97, 98, 98] = 35 ∧ WN exBytesG 3 10 [0, 1, 1] = 0
      ∧ WN exBytesG 3 10 [2, 1] = 35 := by decide
example : WN (cfgToBytes exEnc exBytesG) 3 10 [97, 98, 98]
    = ((decs exEnc exBytesG.V.eraseDups 3 [97, 98, 98]).map fun x => WN exBytesG 3 10 x).sum :=
  cfgToBytes_WN exEnc exBytesG (by decide) 3 10 [97, 98, 98]
/-- a truncated code word is not an encoding -/
example : WN (cfgToBytes exEnc exBytesG) 5 10 [97, 226, 130] = 0 :=
  cfgToBytes_WN_not_encoding exEnc exBytesG (by decide) 5 10 _ (fun x hx h => by
    have := ((decList_decs exEnc exBytesG.V (by decide)).mem _ x).mpr ⟨hx, h⟩
    have this : x ∈ decs exEnc exBytesG.V.eraseDups 3 [97, 226, 130] := this
    rw [show decs exEnc exBytesG.V.eraseDups 3 [97, 226, 130] = [] by decide] at this
    cases this)

/-- the hypothesis "no nonterminal is a byte" matters: here the nonterminal `97` is also the byte of
the terminal `0`; in the byte grammar it becomes a terminal, so `10 → 97` yields the byte string
`[97]` with weight `2`, whereas its only decoding `[0]` weighs `2·3 = 6` in `G` -/
def exBytesBad : CFG Nat Nat := ⟨10, [0], [⟨2, 10, [97]⟩, ⟨3, 97, [0]⟩]⟩

example : ¬ BytesOk exEnc exBytesBad := by decide
example : WN (cfgToBytes exEnc exBytesBad) 3 10 [97] = 2
    ∧ ((decs exEnc exBytesBad.V.eraseDups 1 [97]).map fun x => WN exBytesBad 3 10 x).sum = 6 := by
  decide

/-- a (trivially) prefix-free encoder: one byte per symbol, the symbol itself -/
example : WN (cfgToBytes (fun a => [a]) exBytesG) 3 10 ([0, 3].flatMap fun a => [a])
    = WN exBytesG 3 10 [0, 3] :=
  cfgToBytes_WN_prefixFree _ exBytesG (by decide)
    (by intro a b h; simpa using h) (by simp) 3 10 [0, 3]

end Examples
end Misc2Aux
end Genlm
