import GenlmModel.Model.Mask
import GenlmModel.Proofs.Horn
import GenlmModel.Proofs.Derives
import Mathlib.Data.List.Basic
import Mathlib.Data.List.Perm.Subperm

/-!
Correctness of the viable-prefix decision procedure of `Model/Mask.lean`:
`viable_spec`, `derivesB_spec`, `nextSet_spec`, for every grammar and every context.
-/
namespace Genlm

/-! ### the fast Horn engine computes the least model -/
section engine
variable {α : Type} [DecidableEq α]

theorem gsStep_cases (s : List α) (c : Clause α) :
    gsStep s c = s ∨
      (gsStep s c = c.concl :: s ∧ c.concl ∉ s ∧ ∀ p ∈ c.prem, p ∈ s) := by
  unfold gsStep
  split
  · exact Or.inl rfl
  · split
    · rename_i h1 h2
      simp only [List.all_eq_true, decide_eq_true_eq] at h2
      exact Or.inr ⟨rfl, h1, h2⟩
    · exact Or.inl rfl

/-- the state is duplicate free and contains derivable atoms only -/
def GsInv (cs : List (Clause α)) (s : List α) : Prop := s.Nodup ∧ ∀ a ∈ s, Derivable cs a

theorem gsStep_inv {cs : List (Clause α)} {s : List α} {c : Clause α} (hc : c ∈ cs)
    (h : GsInv cs s) : GsInv cs (gsStep s c) := by
  rcases gsStep_cases s c with e | ⟨e, hn, hp⟩
  · rw [e]; exact h
  · rw [e]
    refine ⟨List.nodup_cons.2 ⟨hn, h.1⟩, ?_⟩
    intro a ha
    rcases List.mem_cons.1 ha with rfl | ha
    · exact Derivable.fire c hc (fun p hp' => h.2 p (hp p hp'))
    · exact h.2 a ha

theorem foldl_gsStep_inv {cs : List (Clause α)} (l : List (Clause α)) (hl : ∀ c ∈ l, c ∈ cs)
    (s : List α) (h : GsInv cs s) : GsInv cs (l.foldl gsStep s) := by
  induction l generalizing s with
  | nil => exact h
  | cons c l ih =>
    simp only [List.foldl_cons]
    exact ih (fun c' hc' => hl c' (List.mem_cons_of_mem _ hc')) _
      (gsStep_inv (hl c List.mem_cons_self) h)

theorem gsStep_length_le (s : List α) (c : Clause α) : s.length ≤ (gsStep s c).length := by
  rcases gsStep_cases s c with e | ⟨e, _, _⟩
  · rw [e]
  · rw [e]; exact Nat.le_succ _

theorem foldl_gsStep_length_le (l : List (Clause α)) (s : List α) :
    s.length ≤ (l.foldl gsStep s).length := by
  induction l generalizing s with
  | nil => exact Nat.le_refl _
  | cons c l ih =>
    simp only [List.foldl_cons]
    exact Nat.le_trans (gsStep_length_le s c) (ih _)

theorem foldl_gsStep_fix (l : List (Clause α)) (s : List α)
    (h : (l.foldl gsStep s).length = s.length) : ∀ c ∈ l, gsStep s c = s := by
  induction l generalizing s with
  | nil => intro c hc; cases hc
  | cons c l ih =>
    simp only [List.foldl_cons] at h
    have h1 := gsStep_length_le s c
    have h2 := foldl_gsStep_length_le l (gsStep s c)
    have e : gsStep s c = s := by
      rcases gsStep_cases s c with e | ⟨e, _, _⟩
      · exact e
      · rw [e] at h2 h; simp only [List.length_cons] at h2; omega
    rw [e] at h
    intro c' hc'
    rcases List.mem_cons.1 hc' with rfl | hc'
    · exact e
    · exact ih s h c' hc'

/-- a round that adds nothing certifies a closed state -/
theorem closed_of_gsRound (cs : List (Clause α)) (s : List α)
    (h : (gsRound cs s).length = s.length) : Closed cs s := by
  intro c hc hp
  have e := foldl_gsStep_fix cs s h c hc
  rcases gsStep_cases s c with _ | ⟨e', hn, _⟩
  · unfold gsStep at e
    by_cases h1 : c.concl ∈ s
    · exact h1
    · have h2 : (c.prem.all (· ∈ s)) = true := by
        simp only [List.all_eq_true, decide_eq_true_eq]; exact hp
      rw [if_neg h1, if_pos h2] at e
      have := congrArg List.length e
      simp at this
  · rw [e] at e'
    have := congrArg List.length e'
    simp at this

omit [DecidableEq α] in
theorem GsInv.length_le {cs : List (Clause α)} {s : List α} (h : GsInv cs s) :
    s.length ≤ cs.length := by
  have hsub : s ⊆ cs.map (·.concl) := by
    intro a ha
    cases h.2 a ha with
    | fire c hc _ => exact List.mem_map.2 ⟨c, hc, rfl⟩
  simpa using h.1.length_le_of_subset hsub

theorem gsIter_inv (cs : List (Clause α)) (k : Nat) (s : List α) (h : GsInv cs s) :
    GsInv cs (gsIter cs k s) := by
  induction k generalizing s with
  | zero => exact h
  | succ k ih =>
    simp only [gsIter]
    split
    · exact h
    · exact ih _ (foldl_gsStep_inv cs (fun _ hc => hc) s h)

theorem gsIter_closed (cs : List (Clause α)) (k : Nat) (s : List α) (h : GsInv cs s)
    (hk : cs.length < s.length + k) : Closed cs (gsIter cs k s) := by
  induction k generalizing s with
  | zero => have := h.length_le; omega
  | succ k ih =>
    simp only [gsIter]
    split
    · rename_i e; exact closed_of_gsRound cs s e
    · rename_i e
      have h1 : s.length ≤ (gsRound cs s).length := foldl_gsStep_length_le cs s
      exact ih _ (foldl_gsStep_inv cs (fun _ hc => hc) s h) (by omega)

/-- the fast engine: membership in the computed list ↔ derivability -/
theorem mem_hlfpFast_iff (cs : List (Clause α)) (a : α) :
    a ∈ hlfpFast cs ↔ Derivable cs a := by
  have h0 : GsInv cs ([] : List α) := ⟨List.nodup_nil, fun _ h => by cases h⟩
  constructor
  · exact (gsIter_inv cs _ [] h0).2 a
  · intro ha
    exact derivable_mem_closed cs _ (gsIter_closed cs _ [] h0 (by simp)) ha

/-- `hlfpFast` and `hlfp` compute the same set -/
theorem mem_hlfpFast (cs : List (Clause α)) (a : α) : a ∈ hlfpFast cs ↔ a ∈ hlfp cs := by
  rw [mem_hlfpFast_iff, hlfp_spec]

end engine


/-! ### the clause groups, by membership -/
section groups
variable {σ K : Type} [DecidableEq σ]

private theorem mem_dedupL {α : Type} [DecidableEq α] (l : List α) (a : α) : a ∈ dedupL l ↔ a ∈ l := by
  induction l with
  | nil => simp [dedupL]
  | cons x xs ih =>
    simp only [dedupL, List.mem_cons, List.mem_filter, ih, ne_eq, decide_not, Bool.not_eq_eq_eq_not,
      Bool.not_true, decide_eq_false_iff_not]
    by_cases h : a = x <;> simp [h]

private theorem mem_suffixes_self {α : Type} (l : List α) : l ∈ suffixes l := by
  cases l <;> simp [suffixes]

private theorem mem_suffixes_tail {α : Type} {l : List α} {s : α} {β : List α}
    (h : s :: β ∈ suffixes l) : β ∈ suffixes l := by
  induction l with
  | nil => simp [suffixes] at h
  | cons x xs ih =>
    simp only [suffixes, List.mem_cons] at h ⊢
    rcases h with h | h
    · injection h with _ h2
      subst h2
      exact Or.inr (mem_suffixes_self _)
    · exact Or.inr (ih h)

theorem mem_bodies (G : CFG σ K) (β : List σ) :
    β ∈ bodies G ↔ ∃ r ∈ G.rules, β ∈ suffixes r.body := by
  simp only [bodies, mem_dedupL, List.mem_flatMap]

theorem body_mem_bodies {G : CFG σ K} {r : Rule σ K} (h : r ∈ G.rules) : r.body ∈ bodies G :=
  (mem_bodies G _).2 ⟨r, h, mem_suffixes_self _⟩

theorem tail_mem_bodies {G : CFG σ K} {s : σ} {β : List σ} (h : s :: β ∈ bodies G) :
    β ∈ bodies G := by
  obtain ⟨r, hr, hs⟩ := (mem_bodies G _).1 h
  exact (mem_bodies G _).2 ⟨r, hr, mem_suffixes_tail hs⟩

theorem mem_consBodies (G : CFG σ K) (p : σ × List σ) :
    p ∈ consBodies G ↔ p.1 :: p.2 ∈ bodies G := by
  simp only [consBodies, List.mem_filterMap]
  constructor
  · rintro ⟨b, hb, h⟩
    cases b with
    | nil => simp at h
    | cons s β => simp only [Option.some.injEq] at h; subst h; exact hb
  · intro h
    exact ⟨p.1 :: p.2, h, rfl⟩

theorem mem_urules (G : CFG σ K) (r : Rule σ K) :
    r ∈ urules G ↔ r ∈ G.rules ∧ r.head ∉ G.V := by
  simp [urules]

omit [DecidableEq σ] in
theorem mem_clSpanNil (n : Nat) (cl : Clause (Atom σ)) :
    cl ∈ clSpanNil n ↔ ∃ i, i ≤ n ∧ cl = ⟨[], .spanL i [] i⟩ := by
  simp only [clSpanNil, List.mem_map, List.mem_range, Nat.lt_succ_iff, eq_comm]

theorem mem_clSpanTerm (G : CFG σ K) (c : List σ) (cl : Clause (Atom σ)) :
    cl ∈ clSpanTerm G c ↔ ∃ i a, c[i]? = some a ∧ a ∈ G.V ∧ cl = ⟨[], .spanS i a (i + 1)⟩ := by
  simp only [clSpanTerm, List.mem_flatMap, List.mem_range]
  constructor
  · rintro ⟨i, _, h⟩
    cases e : c[i]? with
    | none => rw [e] at h; simp at h
    | some a =>
      rw [e] at h
      by_cases ha : a ∈ G.V
      · simp only [ha, if_true, List.mem_singleton] at h
        exact ⟨i, a, e, ha, h⟩
      · simp [ha] at h
  · rintro ⟨i, a, e, ha, rfl⟩
    refine ⟨i, ?_, ?_⟩
    · obtain ⟨h, _⟩ := List.getElem?_eq_some_iff.1 e; exact h
    · rw [e]; simp [ha]

theorem mem_clSpanRule (G : CFG σ K) (n : Nat) (cl : Clause (Atom σ)) :
    cl ∈ clSpanRule G n ↔ ∃ r i j, r ∈ G.rules ∧ r.head ∉ G.V ∧ i ≤ j ∧ j ≤ n ∧
      cl = ⟨[.spanL i r.body j], .spanS i r.head j⟩ := by
  simp only [clSpanRule, List.mem_flatMap, List.mem_map, List.mem_range, Nat.lt_succ_iff,
    mem_urules]
  constructor
  · rintro ⟨r, ⟨h1, h2⟩, j, hj, i, hi, rfl⟩; exact ⟨r, i, j, h1, h2, hi, hj, rfl⟩
  · rintro ⟨r, i, j, h1, h2, hi, hj, rfl⟩; exact ⟨r, ⟨h1, h2⟩, j, hj, i, hi, rfl⟩

theorem mem_clSpanCons (G : CFG σ K) (n : Nat) (cl : Clause (Atom σ)) :
    cl ∈ clSpanCons G n ↔ ∃ s β i m j, s :: β ∈ bodies G ∧ i ≤ m ∧ m ≤ j ∧ j ≤ n ∧
      cl = ⟨[.spanS i s m, .spanL m β j], .spanL i (s :: β) j⟩ := by
  simp only [clSpanCons, List.mem_flatMap, List.mem_map, List.mem_range, Nat.lt_succ_iff,
    mem_consBodies]
  constructor
  · rintro ⟨⟨s, β⟩, hb, j, hj, m, hm, i, hi, rfl⟩; exact ⟨s, β, i, m, j, hb, hi, hm, hj, rfl⟩
  · rintro ⟨s, β, i, m, j, hb, hi, hm, hj, rfl⟩; exact ⟨⟨s, β⟩, hb, j, hj, m, hm, i, hi, rfl⟩

omit [DecidableEq σ] in
theorem mem_clPreTerm (G : CFG σ K) (n : Nat) (cl : Clause (Atom σ)) :
    cl ∈ clPreTerm G n ↔ ∃ a, a ∈ G.V ∧ cl = ⟨[], .preS n a⟩ := by
  simp only [clPreTerm, List.mem_map, eq_comm]

omit [DecidableEq σ] in
theorem mem_clPreSpan (G : CFG σ K) (n : Nat) (cl : Clause (Atom σ)) :
    cl ∈ clPreSpan G n ↔ ∃ a i, a ∈ G.V ∧ i ≤ n ∧ cl = ⟨[.spanS i a n], .preS i a⟩ := by
  simp only [clPreSpan, List.mem_flatMap, List.mem_map, List.mem_range, Nat.lt_succ_iff]
  constructor
  · rintro ⟨a, ha, i, hi, rfl⟩; exact ⟨a, i, ha, hi, rfl⟩
  · rintro ⟨a, i, ha, hi, rfl⟩; exact ⟨a, ha, i, hi, rfl⟩

theorem mem_clPreRule (G : CFG σ K) (n : Nat) (cl : Clause (Atom σ)) :
    cl ∈ clPreRule G n ↔ ∃ r i, r ∈ G.rules ∧ r.head ∉ G.V ∧ i ≤ n ∧
      cl = ⟨[.preL i r.body], .preS i r.head⟩ := by
  simp only [clPreRule, List.mem_flatMap, List.mem_map, List.mem_range, Nat.lt_succ_iff,
    mem_urules]
  constructor
  · rintro ⟨r, ⟨h1, h2⟩, i, hi, rfl⟩; exact ⟨r, i, h1, h2, hi, rfl⟩
  · rintro ⟨r, i, h1, h2, hi, rfl⟩; exact ⟨r, ⟨h1, h2⟩, i, hi, rfl⟩

theorem mem_clPreConsL (G : CFG σ K) (n : Nat) (cl : Clause (Atom σ)) :
    cl ∈ clPreConsL G n ↔ ∃ s β i m, s :: β ∈ bodies G ∧ i ≤ m ∧ m ≤ n ∧
      cl = ⟨[.spanS i s m, .preL m β], .preL i (s :: β)⟩ := by
  simp only [clPreConsL, List.mem_flatMap, List.mem_map, List.mem_range, Nat.lt_succ_iff,
    mem_consBodies]
  constructor
  · rintro ⟨⟨s, β⟩, hb, m, hm, i, hi, rfl⟩; exact ⟨s, β, i, m, hb, hi, hm, rfl⟩
  · rintro ⟨s, β, i, m, hb, hi, hm, rfl⟩; exact ⟨⟨s, β⟩, hb, m, hm, i, hi, rfl⟩

theorem mem_clPreConsR (G : CFG σ K) (n : Nat) (cl : Clause (Atom σ)) :
    cl ∈ clPreConsR G n ↔ ∃ s β i, s :: β ∈ bodies G ∧ i ≤ n ∧
      cl = ⟨[.preS i s, .preL n β], .preL i (s :: β)⟩ := by
  simp only [clPreConsR, List.mem_flatMap, List.mem_map, List.mem_range, Nat.lt_succ_iff,
    mem_consBodies]
  constructor
  · rintro ⟨⟨s, β⟩, hb, i, hi, rfl⟩; exact ⟨s, β, i, hb, hi, rfl⟩
  · rintro ⟨s, β, i, hb, hi, rfl⟩; exact ⟨⟨s, β⟩, hb, i, hi, rfl⟩

theorem mem_clauses (G : CFG σ K) (c : List σ) (cl : Clause (Atom σ)) :
    cl ∈ clauses G c ↔
      cl ∈ clSpanNil c.length ∨ cl ∈ clSpanTerm G c ∨ cl ∈ clSpanRule G c.length ∨
      cl ∈ clSpanCons G c.length ∨ cl ∈ clPreNil c.length ∨ cl ∈ clPreTerm G c.length ∨
      cl ∈ clPreSpan G c.length ∨ cl ∈ clPreRule G c.length ∨ cl ∈ clPreConsL G c.length ∨
      cl ∈ clPreConsR G c.length := by
  simp only [clauses, List.mem_append]

end groups

/-! ### intended meaning of the items; soundness -/
section sound
variable {σ K : Type} [DecidableEq σ]

/-- the intended meaning of an item -/
def MaskSem (G : CFG σ K) (c : List σ) : Atom σ → Prop
  | .spanS i s j => ∃ x, Derives G s x ∧ c.drop i = x ++ c.drop j
  | .spanL i β j => ∃ x, DerivesBody G β x ∧ c.drop i = x ++ c.drop j
  | .preS i s => ∃ y, Derives G s (c.drop i ++ y)
  | .preL i β => ∃ y, DerivesBody G β (c.drop i ++ y)

theorem clause_sound (G : CFG σ K) (c : List σ) (cl : Clause (Atom σ)) (hcl : cl ∈ clauses G c)
    (ih : ∀ p ∈ cl.prem, MaskSem G c p) : MaskSem G c cl.concl := by
  rcases (mem_clauses G c cl).1 hcl with h | h | h | h | h | h | h | h | h | h
  · obtain ⟨i, _, rfl⟩ := (mem_clSpanNil _ _).1 h
    exact ⟨[], .nil, rfl⟩
  · obtain ⟨i, a, e, ha, rfl⟩ := (mem_clSpanTerm _ _ _).1 h
    obtain ⟨hi, rfl⟩ := List.getElem?_eq_some_iff.1 e
    exact ⟨[c[i]], .term ha, by rw [List.drop_eq_getElem_cons hi]; rfl⟩
  · obtain ⟨r, i, j, hr, hh, _, _, rfl⟩ := (mem_clSpanRule _ _ _).1 h
    obtain ⟨x, hx, e⟩ := ih (.spanL i r.body j) (by simp)
    exact ⟨x, .rule hr hh hx, e⟩
  · obtain ⟨s, β, i, m, j, _, _, _, _, rfl⟩ := (mem_clSpanCons _ _ _).1 h
    obtain ⟨u, hu, e1⟩ := ih (.spanS i s m) (by simp)
    obtain ⟨v, hv, e2⟩ := ih (.spanL m β j) (by simp)
    exact ⟨u ++ v, .cons hu hv, by rw [e1, e2, List.append_assoc]⟩
  · simp only [clPreNil, List.mem_singleton] at h
    subst h
    exact ⟨[], by simpa using DerivesBody.nil⟩
  · obtain ⟨a, ha, rfl⟩ := (mem_clPreTerm _ _ _).1 h
    exact ⟨[a], by simpa using Derives.term ha⟩
  · obtain ⟨a, i, _, _, rfl⟩ := (mem_clPreSpan _ _ _).1 h
    obtain ⟨x, hx, e⟩ := ih (.spanS i a c.length) (by simp)
    exact ⟨[], by simpa [e] using hx⟩
  · obtain ⟨r, i, hr, hh, _, rfl⟩ := (mem_clPreRule _ _ _).1 h
    obtain ⟨y, hy⟩ := ih (.preL i r.body) (by simp)
    exact ⟨y, .rule hr hh hy⟩
  · obtain ⟨s, β, i, m, _, _, _, rfl⟩ := (mem_clPreConsL _ _ _).1 h
    obtain ⟨u, hu, e1⟩ := ih (.spanS i s m) (by simp)
    obtain ⟨y, hy⟩ := ih (.preL m β) (by simp)
    exact ⟨y, by simpa [e1] using DerivesBody.cons hu hy⟩
  · obtain ⟨s, β, i, _, _, rfl⟩ := (mem_clPreConsR _ _ _).1 h
    obtain ⟨y1, h1⟩ := ih (.preS i s) (by simp)
    obtain ⟨y2, h2⟩ := ih (.preL c.length β) (by simp)
    exact ⟨y1 ++ y2, by simpa using DerivesBody.cons h1 h2⟩

theorem sem_of_derivable (G : CFG σ K) (c : List σ) {a : Atom σ}
    (h : Derivable (clauses G c) a) : MaskSem G c a := by
  induction h with
  | fire cl hcl _ ih => exact clause_sound G c cl hcl ih

end sound


/-! ### completeness -/
section complete
variable {σ K : Type} [DecidableEq σ]

private theorem fire_of {α : Type} {cs : List (Clause α)} (prem : List α) (concl : α)
    (h : (⟨prem, concl⟩ : Clause α) ∈ cs) (hp : ∀ p ∈ prem, Derivable cs p) :
    Derivable cs concl :=
  Derivable.fire ⟨prem, concl⟩ h hp

/-- every true span item is derivable -/
theorem span_complete (G : CFG σ K) (c : List σ) :
    (∀ s x, Derives G s x → ∀ i j, i ≤ j → j ≤ c.length → c.drop i = x ++ c.drop j →
      Derivable (clauses G c) (.spanS i s j)) ∧
    (∀ β x, DerivesBody G β x → β ∈ bodies G → ∀ i j, i ≤ j → j ≤ c.length →
      c.drop i = x ++ c.drop j → Derivable (clauses G c) (.spanL i β j)) := by
  apply Derives.both
  · intro a ha i j hij hj e
    have hl := congrArg List.length e
    simp only [List.length_drop, List.length_append, List.length_cons, List.length_nil] at hl
    have hj' : j = i + 1 := by omega
    subst hj'
    have hi : i < c.length := by omega
    have hc : c[i]? = some a := by
      rw [List.drop_eq_getElem_cons hi] at e
      simp only [List.singleton_append, List.cons.injEq] at e
      rw [List.getElem?_eq_getElem hi, e.1]
    refine fire_of [] _ ?_ (by simp)
    rw [mem_clauses]; right; left
    exact (mem_clSpanTerm _ _ _).2 ⟨i, a, hc, ha, rfl⟩
  · intro r x hr hh _ ih i j hij hj e
    refine fire_of [.spanL i r.body j] _ ?_ ?_
    · rw [mem_clauses]; right; right; left
      exact (mem_clSpanRule _ _ _).2 ⟨r, i, j, hr, hh, hij, hj, rfl⟩
    · intro p hp
      rw [List.mem_singleton] at hp; subst hp
      exact ih (body_mem_bodies hr) i j hij hj e
  · intro _ i j hij hj e
    have hl := congrArg List.length e
    simp only [List.length_drop, List.length_append, List.length_nil] at hl
    have hj' : j = i := by omega
    subst hj'
    refine fire_of [] _ ?_ (by simp)
    rw [mem_clauses]; left
    exact (mem_clSpanNil _ _).2 ⟨j, hj, rfl⟩
  · intro s ss u v _ _ ihs ihss hb i j hij hj e
    have hl := congrArg List.length e
    simp only [List.length_drop, List.length_append] at hl
    have e2 : c.drop (i + u.length) = v ++ c.drop j := by
      have := congrArg (List.drop u.length) e
      rw [List.drop_drop, List.append_assoc, List.drop_left] at this
      exact this
    have e1 : c.drop i = u ++ c.drop (i + u.length) := by
      rw [e2, e, List.append_assoc]
    refine fire_of [.spanS i s (i + u.length), .spanL (i + u.length) ss j] _ ?_ ?_
    · rw [mem_clauses]; right; right; right; left
      exact (mem_clSpanCons _ _ _).2 ⟨s, ss, i, i + u.length, j, hb, by omega, by omega, hj, rfl⟩
    · intro p hp
      simp only [List.mem_cons, List.not_mem_nil, or_false] at hp
      rcases hp with rfl | rfl
      · exact ihs i _ (by omega) (by omega) e1
      · exact ihss (tail_mem_bodies hb) _ j (by omega) hj e2

/-- every true prefix item is derivable -/
theorem pre_complete (G : CFG σ K) (c : List σ) :
    (∀ s x, Derives G s x → ∀ i y, i ≤ c.length → x = c.drop i ++ y →
      Derivable (clauses G c) (.preS i s)) ∧
    (∀ β x, DerivesBody G β x → β ∈ bodies G → ∀ i y, i ≤ c.length → x = c.drop i ++ y →
      Derivable (clauses G c) (.preL i β)) := by
  apply Derives.both
  · intro a ha i y hi e
    cases hd : c.drop i with
    | nil =>
      have hl := congrArg List.length hd
      simp only [List.length_drop, List.length_nil] at hl
      have : i = c.length := by omega
      subst this
      refine fire_of [] _ ?_ (by simp)
      rw [mem_clauses]; right; right; right; right; right; left
      exact (mem_clPreTerm _ _ _).2 ⟨a, ha, rfl⟩
    | cons b t =>
      rw [hd] at e
      simp only [List.cons_append, List.cons.injEq, List.nil_eq, List.append_eq_nil_iff] at e
      obtain ⟨rfl, rfl, rfl⟩ := e
      refine fire_of [.spanS i a c.length] _ ?_ ?_
      · rw [mem_clauses]; right; right; right; right; right; right; left
        exact (mem_clPreSpan _ _ _).2 ⟨a, i, ha, hi, rfl⟩
      · intro p hp
        rw [List.mem_singleton] at hp; subst hp
        exact (span_complete G c).1 a [a] (.term ha) i c.length hi (Nat.le_refl _)
          (by rw [hd, List.drop_length]; rfl)
  · intro r x hr hh _ ih i y hi e
    refine fire_of [.preL i r.body] _ ?_ ?_
    · rw [mem_clauses]; right; right; right; right; right; right; right; left
      exact (mem_clPreRule _ _ _).2 ⟨r, i, hr, hh, hi, rfl⟩
    · intro p hp
      rw [List.mem_singleton] at hp; subst hp
      exact ih (body_mem_bodies hr) i y hi e
  · intro _ i y hi e
    have hd : c.drop i = [] := (List.append_eq_nil_iff.1 e.symm).1
    have hl := congrArg List.length hd
    simp only [List.length_drop, List.length_nil] at hl
    have : i = c.length := by omega
    subst this
    refine fire_of [] _ ?_ (by simp)
    rw [mem_clauses]; right; right; right; right; left
    simp [clPreNil]
  · intro s ss u v hs _ ihs ihss hb i y hi e
    rcases List.append_eq_append_iff.1 e with ⟨as, e1, e2⟩ | ⟨bs, e1, e2⟩
    · -- the first symbol ends inside the context
      have hl := congrArg List.length e1
      simp only [List.length_drop, List.length_append] at hl
      have e3 : c.drop (i + u.length) = as := by
        have := congrArg (List.drop u.length) e1
        rw [List.drop_drop, List.drop_left] at this
        exact this
      refine fire_of [.spanS i s (i + u.length), .preL (i + u.length) ss] _ ?_ ?_
      · rw [mem_clauses]; right; right; right; right; right; right; right; right; left
        exact (mem_clPreConsL _ _ _).2 ⟨s, ss, i, i + u.length, hb, by omega, by omega, rfl⟩
      · intro p hp
        simp only [List.mem_cons, List.not_mem_nil, or_false] at hp
        rcases hp with rfl | rfl
        · exact (span_complete G c).1 s u hs i _ (by omega) (by omega) (by rw [e3, e1])
        · exact ihss (tail_mem_bodies hb) _ y (by omega) (by rw [e3, e2])
    · -- the first symbol covers the rest of the context
      refine fire_of [.preS i s, .preL c.length ss] _ ?_ ?_
      · rw [mem_clauses]; right; right; right; right; right; right; right; right; right
        exact (mem_clPreConsR _ _ _).2 ⟨s, ss, i, hb, hi, rfl⟩
      · intro p hp
        simp only [List.mem_cons, List.not_mem_nil, or_false] at hp
        rcases hp with rfl | rfl
        · exact ihs i bs hi e1
        · exact ihss (tail_mem_bodies hb) _ v (Nat.le_refl _) (by rw [List.drop_length]; rfl)

end complete

/-! ### the specification theorems -/
section spec
variable {σ K : Type} [DecidableEq σ]

/-- `viable G c` decides whether `c` is a viable prefix of `G`, for every grammar and context -/
theorem viable_spec (G : CFG σ K) (c : List σ) :
    viable G c = true ↔ ∃ y, Derives G G.S (c ++ y) := by
  simp only [viable, decide_eq_true_eq, mem_hlfpFast_iff]
  constructor
  · intro h
    simpa [MaskSem] using sem_of_derivable G c h
  · rintro ⟨y, h⟩
    exact (pre_complete G c).1 G.S _ h 0 y (Nat.zero_le _) (by simp)

/-- `derivesB G c` decides whether `S` derives exactly `c` -/
theorem derivesB_spec (G : CFG σ K) (c : List σ) :
    derivesB G c = true ↔ Derives G G.S c := by
  simp only [derivesB, decide_eq_true_eq, mem_hlfpFast_iff]
  constructor
  · intro h
    obtain ⟨x, hx, e⟩ := sem_of_derivable G c h
    simp only [List.drop_zero, List.drop_length, List.append_nil] at e
    rw [e]; exact hx
  · intro h
    exact (span_complete G c).1 G.S _ h 0 c.length (Nat.zero_le _) (Nat.le_refl _) (by simp)

/-- the same two functions, evaluated with the reference engine `hlfp` -/
theorem viable_eq_hlfp (G : CFG σ K) (c : List σ) :
    viable G c = decide (Atom.preS 0 G.S ∈ hlfp (clauses G c)) := by
  simp only [viable, mem_hlfpFast]

theorem derivesB_eq_hlfp (G : CFG σ K) (c : List σ) :
    derivesB G c = decide (Atom.spanS 0 G.S c.length ∈ hlfp (clauses G c)) := by
  simp only [derivesB, mem_hlfpFast]

/-- the next-token mask: `t` is allowed after `c` iff it is a terminal and `c ++ [t]` is a
viable prefix -/
theorem nextSet_spec (G : CFG σ K) (c : List σ) (t : σ) :
    t ∈ nextSet G c ↔ t ∈ G.V ∧ ∃ y, Derives G G.S (c ++ t :: y) := by
  simp only [nextSet, List.mem_filter, viable_spec, List.append_assoc, List.singleton_append]

theorem nextSet_empty_of_not_viable (G : CFG σ K) (c : List σ)
    (h : ¬ ∃ y, Derives G G.S (c ++ y)) : nextSet G c = [] := by
  apply List.eq_nil_iff_forall_not_mem.2
  intro t ht
  obtain ⟨_, y, hy⟩ := (nextSet_spec G c t).1 ht
  exact h ⟨t :: y, hy⟩

/-- the mask is a sublist of `G.V`, in the order of `G.V` -/
theorem nextSet_sublist (G : CFG σ K) (c : List σ) : (nextSet G c).Sublist G.V :=
  List.filter_sublist

end spec

/-! ### the procedure at work -/
section examples

/-- `S → a S b | ε | A`, `A → S` (a unary cycle), with `S = 0`, `A = 1`, `a = 10`, `b = 11`. -/
private def maskExG : CFG Nat Nat :=
  ⟨0, [10, 11], [⟨1, 0, [10, 0, 11]⟩, ⟨1, 0, []⟩, ⟨1, 0, [1]⟩, ⟨1, 1, [0]⟩]⟩

-- Kernel evaluation (`decide +kernel`: no compiler, no extra axiom) is slow, so only the
-- smallest contexts are checked here; the comments record `#eval` on longer ones.
example : nextSet maskExG [] = [10] := by decide +kernel
example : derivesB maskExG [] = true := by decide +kernel
/-- a non-viable context: the mask is empty -/
example : nextSet maskExG [11] = [] :=
  nextSet_empty_of_not_viable _ _ (by rw [← viable_spec]; decide +kernel)
-- #eval viable maskExG [10]                   -- true
-- #eval derivesB maskExG [10]                 -- false
-- #eval nextSet maskExG [10]                  -- [10, 11]
-- #eval nextSet maskExG [10, 10, 11]          -- [11]
-- #eval nextSet maskExG [10, 11]              -- []      (viable, complete: nothing can follow)
-- #eval nextSet maskExG [11]                  -- []      (not viable)
-- #eval derivesB maskExG [10, 10, 11, 11]     -- true
-- #eval derivesB maskExG [10, 10, 11]         -- false
-- #eval viable maskExG [10, 10, 11]           -- true

end examples

end Genlm
