import GenlmModel.Proofs.PrefixWeight
import GenlmModel.Proofs.ChainRule
import GenlmModel.Proofs.IncCky
import GenlmModel.Proofs.EarleyNext
import GenlmModel.Proofs.AddEos

/-!
# C04: the language models compute the conditionals of the prefix weights

`CKYLM.p_next(c) = IncrementalCKY(pfg).p_next(c).normalize()` and
`EarleyLM.p_next(c) = Earley(pfg).next_token_weights(chart(c)).normalize()`; `LM.__call__` multiplies the
entries `p_next(context[:i])[context[i]]`.  This file links the parser theorems (`incCky_pnext_is_WN`,
`earley_pnext_is_WN`: the unnormalised entry at `t` is the weight the grammar gives to `c ++ [t]`) with the pure
algebra of `Proofs/ChainRule.lean` and with the prefix weights of `Proofs/PrefixWeight.lean`.

* `PNextOK V pn W` — the interface of an unnormalised next-token oracle: distinct keys, nothing outside `V`,
  entry `t` is `W (c ++ [t])`; `cky_pnextOK`, `earley_pnextOK` show the two back ends meet it;
* `chart_link` — one chart: distinct keys, zero outside `V`, entries `Pn t` with `Σ_t Pn t = Pc ≠ 0`; the
  pointwise forms `cky_lm_next`, `earley_lm_next` need the hypotheses only at `c` and its extensions `c ++ [t]`;
* `lm_next`, `lm_call` — any oracle meeting the interface for weights `P` that are consistent
  (`P c = Σ_{t ∈ V} P (c ++ [t])` for `eos`-free `c`): the total of the chart is `P c`, the normalised entry at
  `t` is `P (c ++ [t]) / P c`, the normalised chart sums to one, and `LM.__call__ (x ++ [eos])` is
  `P (x ++ [eos]) / P []`;
* `cky_lm_correct`, `earley_lm_correct` — the two back ends, for a grammar `H` (in CNF, resp. `Acyc`) whose
  string weights are `P` (semantic hypothesis `hHP`: `WN H n H.S c = P c` at one level `n` where `WN` has
  stabilised, `cnf_WN_stable` / `WN_stable`);
* `prefix_limit_consistent`, `addEOS_prefix_consistent` — where the consistency equation comes from: if the
  prefix weights `prefixWN G' n c` of `G' = add_EOS G` stabilise at `P c`, then `P` is consistent on the
  `eos`-free contexts (every string of `G'` ends with `eos`: `addEOS_WN_zero_of_no_eos`);
* `cky_lm_of_addEOS` — everything chained: `H` in CNF with the terminals of `G' = add_EOS G` and string
  weights equal to the (stabilised) prefix weights of `G'`.

The weights live in a field (`Chart.normalize` divides).  `P` is an abstract function: in a field the prefix
weight of a grammar with infinitely many derivations is an infinite sum, which the prefix grammar represents
through the closed forms of `nullaryremove` / `unarycycleremove`; the theorems here do not need to know how.
-/
namespace Genlm
set_option linter.unusedSectionVars false
open UnfoldAux IncCkyAux

namespace LinkAux

/-! ### charts -/
section
variable {κ K : Type} [DecidableEq κ] [CommSemiring K]

theorem get_of_mem (c : PyChart κ K) (hc : NodupKeys c) (e : κ × K) (he : e ∈ c) : c.get e.1 = e.2 := by
  unfold NodupKeys at hc
  induction c with
  | nil => cases he
  | cons d c ih =>
    obtain ⟨hd, hc'⟩ := List.nodup_cons.mp hc
    rw [get_cons]
    rcases List.mem_cons.mp he with rfl | he'
    · rw [if_pos rfl]
    · have : d.1 ≠ e.1 := fun h => hd (by
        have hm : e.1 ∈ c.map (·.1) := List.mem_map_of_mem he'
        rw [← h] at hm; exact hm)
      rw [if_neg this, ih hc' he']

theorem get_eq_zero_of_not_key (c : PyChart κ K) (k : κ) (hk : k ∉ c.map (·.1)) : c.get k = 0 := by
  induction c with
  | nil => rfl
  | cons d c ih =>
    rw [get_cons, if_neg (fun h => hk (by simp [h])), ih (fun h => hk (by simp [h]))]

theorem mem_keys_set (c : PyChart κ K) (k : κ) (v : K) (k' : κ) :
    k' ∈ (PyChart.set c k v).map (·.1) ↔ k' ∈ c.map (·.1) ∨ k' = k := by
  induction c with
  | nil => simp [PyChart.set]
  | cons e c ih =>
    simp only [PyChart.set]
    by_cases h : e.1 = k
    · rw [if_pos h]
      simp only [List.map_cons, List.mem_cons]
      constructor
      · intro h'; exact Or.inl h'
      · rintro (h' | h')
        · exact h'
        · exact Or.inl (h'.trans h.symm)
    · rw [if_neg h]
      simp only [List.map_cons, List.mem_cons, ih]
      tauto

theorem nodup_set (c : PyChart κ K) (k : κ) (v : K) (hc : NodupKeys c) : NodupKeys (PyChart.set c k v) := by
  unfold NodupKeys at *
  induction c with
  | nil => simp [PyChart.set]
  | cons e c ih =>
    obtain ⟨he, hc'⟩ := List.nodup_cons.mp hc
    simp only [PyChart.set]
    by_cases h : e.1 = k
    · rw [if_pos h]; exact hc
    · rw [if_neg h]
      simp only [List.map_cons]
      refine List.nodup_cons.mpr ⟨?_, ih hc'⟩
      rw [mem_keys_set]
      rintro (h' | h')
      · exact he h'
      · exact h h'

/-- the total of a chart with distinct keys that is zero outside `V` is the sum of its entries over `V` -/
theorem sum_values_eq_sum_get (q : PyChart κ K) (V : List κ) (hV : V.Nodup) (hq : NodupKeys q)
    (hout : ∀ t, t ∉ V → q.get t = 0) :
    (q.map (·.2)).sum = (V.map fun t => q.get t).sum := by
  have h1 : (V.map fun t => q.get t).sum
      = (V.map fun t => (q.map fun e => if e.1 = t then e.2 else 0).sum).sum := by
    congr 1; apply List.map_congr_left; intro t _
    exact (sum_key q hq t (fun y => y) rfl).symm
  rw [h1, sum_swap V q (fun t e => if e.1 = t then e.2 else 0)]
  congr 1; apply List.map_congr_left; intro e he
  rw [WfsaAux.sum_ite_eq_nodup V hV e.1 (fun _ => e.2)]
  by_cases h : e.1 ∈ V
  · rw [if_pos h]
  · rw [if_neg h, ← get_of_mem q hq e he, hout e.1 h]

/-- a uniform threshold for finitely many eventually-true families -/
theorem exists_uniform {α : Type} (l : List α) (Q : α → Nat → Prop)
    (h : ∀ a ∈ l, ∃ N, ∀ n, N ≤ n → Q a n) : ∃ N, ∀ a ∈ l, ∀ n, N ≤ n → Q a n := by
  induction l with
  | nil => exact ⟨0, fun a ha => by cases ha⟩
  | cons b l ih =>
    obtain ⟨N1, h1⟩ := h b (List.mem_cons_self ..)
    obtain ⟨N2, h2⟩ := ih (fun a ha => h a (List.mem_cons_of_mem _ ha))
    refine ⟨max N1 N2, fun a ha n hn => ?_⟩
    rcases List.mem_cons.mp ha with rfl | ha'
    · exact h1 n (Nat.le_trans (Nat.le_max_left _ _) hn)
    · exact h2 a ha' n (Nat.le_trans (Nat.le_max_right _ _) hn)

end

section
variable {κ K : Type} [DecidableEq κ] [Field K] [DecidableEq K]

theorem get_map_div (q : PyChart κ K) (Z : K) (t : κ) :
    PyChart.get (q.map fun e => (e.1, e.2 / Z)) t = PyChart.get q t / Z := by
  induction q with
  | nil => rw [List.map_nil, get_nil, zero_div]
  | cons e q ih =>
    rw [List.map_cons, get_cons, get_cons, ih]
    by_cases h : e.1 = t
    · rw [if_pos h, if_pos h]
    · rw [if_neg h, if_neg h]

/-- reading a normalised chart: `Chart.normalize()[t] = chart[t] / chart.sum()` -/
theorem get_normalize (q : PyChart κ K) (hZ : chartSum q ≠ 0) (t : κ) :
    PyChart.get (normalize q) t = PyChart.get q t / chartSum q := by
  have hn : normalize q = q.map fun e => (e.1, e.2 / chartSum q) := by
    simp only [normalize, hZ, if_false]
  rw [hn, get_map_div]

end
end LinkAux

open LinkAux

/-! ### the interface of a next-token oracle, and the abstract link -/
section Abstract
variable {σ K : Type} [DecidableEq σ]

/-- `pn c` is the unnormalised chart `p_next(c)` of a parser whose string weights are `W`: distinct keys, all
of them tokens, and the entry at the token `t` is the weight of the extended context -/
structure PNextOK [CommSemiring K] (V : List σ) (pn : List σ → PyChart σ K) (W : List σ → K) : Prop where
  nodup : ∀ c, (∀ b ∈ c, b ∈ V) → NodupKeys (pn c)
  out : ∀ c, (∀ b ∈ c, b ∈ V) → ∀ t, t ∉ V → (pn c).get t = 0
  get : ∀ c, (∀ b ∈ c, b ∈ V) → ∀ t, t ∈ V → (pn c).get t = W (c ++ [t])

/-- only the weights of the non-empty strings over `V` matter -/
theorem PNextOK.congr [CommSemiring K] {V : List σ} {pn : List σ → PyChart σ K} {W W' : List σ → K}
    (h : PNextOK V pn W) (hW : ∀ c, (∀ b ∈ c, b ∈ V) → c ≠ [] → W c = W' c) : PNextOK V pn W' :=
  ⟨h.nodup, h.out, fun c hc t ht => by
    rw [h.get c hc t ht]
    apply hW
    · intro b hb
      rcases List.mem_append.mp hb with h' | h'
      · exact hc b h'
      · rw [List.mem_singleton.mp h']; exact ht
    · simp⟩

variable [Field K] [DecidableEq K]

/-- **one chart**: a chart `q` with distinct keys, zero outside `V`, whose entry at each token `t` is `Pn t`,
where `Pc = Σ_{t ∈ V} Pn t ≠ 0`: its total is `Pc`, its normalisation has the entry `Pn t / Pc` at every token,
`0` elsewhere, and total one -/
theorem chart_link (V : List σ) (hV : V.Nodup) (q : PyChart σ K) (Pc : K) (Pn : σ → K)
    (hnd : NodupKeys q) (hout : ∀ t, t ∉ V → q.get t = 0) (hget : ∀ t, t ∈ V → q.get t = Pn t)
    (hcons : Pc = (V.map Pn).sum) (h0 : Pc ≠ 0) :
    chartSum q = Pc
    ∧ (∀ t, t ∈ V → PyChart.get (normalize q) t = Pn t / Pc)
    ∧ (∀ t, t ∉ V → PyChart.get (normalize q) t = 0)
    ∧ chartSum (normalize q) = 1 := by
  have hZ : chartSum q = Pc := by
    rw [chartSum_eq_sum, sum_values_eq_sum_get q V hV hnd hout, hcons]
    congr 1; apply List.map_congr_left; intro t ht
    exact hget t ht
  have hZ0 : chartSum q ≠ 0 := hZ ▸ h0
  refine ⟨hZ, ?_, ?_, normalize_sums_to_one _ hZ0⟩
  · intro t ht
    rw [get_normalize _ hZ0, hget t ht, hZ]
  · intro t ht
    rw [get_normalize _ hZ0, hout t ht, zero_div]

/-- **one step**: at a context `c` where the weights are consistent and `P c ≠ 0`, the chart `p_next(c)` has
total `P c`, its normalisation has the entry `P (c ++ [t]) / P c` (`= cond P c t`) at every token `t`, the
entry `0` elsewhere, and total one -/
theorem lm_next (V : List σ) (hV : V.Nodup) (pn : List σ → PyChart σ K) (P : List σ → K)
    (hpn : PNextOK V pn P) (c : List σ) (hc : ∀ b ∈ c, b ∈ V)
    (hcons : P c = (V.map fun t => P (c ++ [t])).sum) (h0 : P c ≠ 0) :
    chartSum (pn c) = P c
    ∧ (∀ t, t ∈ V → PyChart.get (normalize (pn c)) t = P (c ++ [t]) / P c)
    ∧ (∀ t, t ∉ V → PyChart.get (normalize (pn c)) t = 0)
    ∧ chartSum (normalize (pn c)) = 1 :=
  chart_link V hV (pn c) (P c) (fun t => P (c ++ [t])) (hpn.nodup c hc) (hpn.out c hc) (hpn.get c hc)
    hcons h0

/-- **the whole string**: `LM.__call__ (x ++ [eos])`, with `p_next(c) = pn(c).normalize()`, is
`P (x ++ [eos]) / P []` -/
theorem lm_call (V : List σ) (hV : V.Nodup) (pn : List σ → PyChart σ K) (P : List σ → K)
    (hpn : PNextOK V pn P) (eos : σ) (heos : eos ∈ V) (x : List σ) (hx : ∀ b ∈ x, b ∈ V)
    (hcons : ∀ i, i ≤ x.length → P (x.take i) = (V.map fun t => P (x.take i ++ [t])).sum)
    (h0 : ∀ i, i ≤ x.length → P (x.take i) ≠ 0) :
    lmCall (fun c t => PyChart.get (normalize (pn c)) t) (x ++ [eos]) = P (x ++ [eos]) / P [] := by
  rw [← lmCall_chain_rule P eos x h0, lmCall_eq_prod _ eos, lmCall_eq_prod (cond P) eos]
  congr 1
  apply List.map_congr_left
  intro i hi
  have hi' : i ≤ x.length := by
    have := List.mem_range.mp hi
    simp only [List.length_append, List.length_cons, List.length_nil] at this
    omega
  rw [List.take_append_of_le_length hi']
  have hc : ∀ b ∈ x.take i, b ∈ V := fun b hb => hx b (List.mem_of_mem_take hb)
  have htok : (x ++ [eos]).getD i eos ∈ V := by
    rw [List.getD_eq_getElem?_getD]
    by_cases hlt : i < x.length
    · rw [List.getElem?_append_left hlt, List.getElem?_eq_getElem hlt, Option.getD_some]
      exact hx _ (List.getElem_mem hlt)
    · have : i = x.length := by omega
      subst this
      rw [List.getElem?_append_right (Nat.le_refl _)]
      simpa using heos
  exact (lm_next V hV pn P hpn (x.take i) hc (hcons i hi') (h0 i hi')).2.1 _ htok

end Abstract

/-! ### the CKY back end -/
section Cky
variable {σ K : Type} [DecidableEq σ]

/-- the chart `p_next(c)` of `IncrementalCKY` has distinct keys (it is a Python dict) -/
theorem incCkyPNext_nodupKeys [CommSemiring K] (H : CFG σ K) (c : List σ) :
    NodupKeys (incCkyPNext H c) := by
  have hflat : incCkyPNext H c =
      (H.V.flatMap fun w => (cnfTerminal H w).map fun r => (w, r)).foldl
        (fun q wr => PyChart.add q wr.1
          (wr.2.w * colGet (outsideAlpha H (ckyChart H c) c) c.length wr.2.head)) [] := by
    unfold incCkyPNext nextTokenWeights
    simp only [List.foldl_flatMap, List.foldl_map, Nat.add_sub_cancel]
  rw [hflat]
  exact (foldl_add_const _ (fun wr : σ × Rule σ K => wr.1) _ []).2 nodup_nil

/-- the outside pass of `IncrementalCKY` meets the interface, for every grammar (string weights:
`IncrementalCKY.__call__`) -/
theorem cky_pnextOK [CommSemiring K] (H : CFG σ K) (hV : H.V.Nodup) :
    PNextOK H.V (incCkyPNext H) (incCkyCall H) :=
  ⟨fun c _ => incCkyPNext_nodupKeys H c, fun c _ t ht => incCkyPNext_notin H _ c t ht,
    fun c _ t ht => outside_is_inside_of_extension H hV c t ht⟩

/-- the string weights of a grammar in CNF have stabilised at level `|x| + 1` -/
theorem cnf_WN_stable [CommSemiring K] (H : CFG σ K) (hcnf : InCNF H) (x : List σ) (n m : Nat)
    (hn : x.length + 1 ≤ n) (hm : x.length + 1 ≤ m) : WN H n H.S x = WN H m H.S x := by
  rw [← incCky_call H hcnf x n hn, ← incCky_call H hcnf x m hm]

variable [Field K] [DecidableEq K]

/-- **C04, CKY back end, one context** (the hypotheses only at the strings that matter): `c` over the tokens,
the string weights of `H` at the extensions `c ++ [t]` are `Pn t`, and `Pc = Σ_t Pn t ≠ 0` -/
theorem cky_lm_next (H : CFG σ K) (hcnf : InCNF H) (hV : H.V.Nodup) (c : List σ) (Pc : K) (Pn : σ → K)
    (hHP : ∀ t, t ∈ H.V → ∃ n, c.length + 2 ≤ n ∧ WN H n H.S (c ++ [t]) = Pn t)
    (hcons : Pc = (H.V.map Pn).sum) (h0 : Pc ≠ 0) :
    chartSum (incCkyPNext H c) = Pc
    ∧ (∀ t, t ∈ H.V → PyChart.get (normalize (incCkyPNext H c)) t = Pn t / Pc)
    ∧ (∀ t, t ∉ H.V → PyChart.get (normalize (incCkyPNext H c)) t = 0)
    ∧ chartSum (normalize (incCkyPNext H c)) = 1 := by
  refine chart_link H.V hV _ Pc Pn (incCkyPNext_nodupKeys H c)
    (fun t ht => incCkyPNext_notin H _ c t ht) (fun t ht => ?_) hcons h0
  obtain ⟨n, hn, h⟩ := hHP t ht
  rw [← h]
  exact incCky_pnext_is_WN H hcnf hV c t ht n hn

/-- **C04, CKY back end.**  `H` is a grammar in CNF (the prefix grammar of `CKYLM`) whose string weights are
`P` (`hHP`: at some level past `|c| + 1`, hence at all of them: `cnf_WN_stable`), and `P` is consistent on the
`eos`-free contexts.  Then for every `eos`-free context `c` over the tokens with `P c ≠ 0`:
`p_next(c)` before normalisation sums to `P c`, after normalisation it is `t ↦ P (c ++ [t]) / P c` on the
tokens, `0` elsewhere, and sums to one; and `LM.__call__ (x ++ [eos]) = P (x ++ [eos]) / P []`. -/
theorem cky_lm_correct (H : CFG σ K) (hcnf : InCNF H) (hV : H.V.Nodup) (eos : σ) (heos : eos ∈ H.V)
    (P : List σ → K)
    (hHP : ∀ c, (∀ b ∈ c, b ∈ H.V) → c ≠ [] → ∃ n, c.length + 1 ≤ n ∧ WN H n H.S c = P c)
    (hcons : ∀ c, (∀ b ∈ c, b ∈ H.V) → eos ∉ c → P c = (H.V.map fun t => P (c ++ [t])).sum) :
    (∀ c, (∀ b ∈ c, b ∈ H.V) → eos ∉ c → P c ≠ 0 →
      chartSum (incCkyPNext H c) = P c
      ∧ (∀ t, t ∈ H.V → PyChart.get (normalize (incCkyPNext H c)) t = P (c ++ [t]) / P c)
      ∧ (∀ t, t ∉ H.V → PyChart.get (normalize (incCkyPNext H c)) t = 0)
      ∧ chartSum (normalize (incCkyPNext H c)) = 1)
    ∧ (∀ x, (∀ b ∈ x, b ∈ H.V) → eos ∉ x → (∀ i, i ≤ x.length → P (x.take i) ≠ 0) →
      lmCall (fun c t => PyChart.get (normalize (incCkyPNext H c)) t) (x ++ [eos])
        = P (x ++ [eos]) / P []) := by
  have hpn : PNextOK H.V (incCkyPNext H) P := by
    refine (cky_pnextOK H hV).congr (fun c hc hne => ?_)
    obtain ⟨n, hn, h⟩ := hHP c hc hne
    rw [← h, incCky_call H hcnf c n hn]
  refine ⟨fun c hc he h0 => lm_next H.V hV _ P hpn c hc (hcons c hc he) h0, ?_⟩
  intro x hx he h0
  refine lm_call H.V hV _ P hpn eos heos x hx (fun i _ => ?_) h0
  exact hcons _ (fun b hb => hx b (List.mem_of_mem_take hb)) (fun h => he (List.mem_of_mem_take h))

end Cky

/-! ### the Earley back end -/
section Earley
variable {σ K : Type} [DecidableEq σ]

namespace LinkAux

/-- the keys of `next_token_weights` are distinct terminals (each `q[Y] = total` is executed for `Y ∈ V`) -/
theorem earleyNTW_keys [CommSemiring K] (G : CFG σ K) (fuel : Nat) (cols : List (ECol σ K)) :
    NodupKeys (earleyNextTokenWeights G fuel cols)
      ∧ ∀ k ∈ (earleyNextTokenWeights G fuel cols).map (·.1), k ∈ G.V := by
  unfold earleyNextTokenWeights
  apply foldl_inv (fun st : PyChart σ K × QMemo σ K =>
    NodupKeys st.1 ∧ ∀ k ∈ st.1.map (·.1), k ∈ G.V)
  · intro st Y _ hst
    by_cases hY : Y ∈ G.V
    · simp only [if_pos hY]
      refine ⟨nodup_set _ _ _ hst.1, fun k hk => ?_⟩
      rcases (mem_keys_set _ _ _ _).mp hk with h | h
      · exact hst.2 k h
      · exact h ▸ hY
    · simp only [if_neg hY]; exact hst
  · exact ⟨nodup_nil, fun k hk => by cases hk⟩

end LinkAux

/-- `Earley.next_token_weights` meets the interface (string weights: `Earley.__call__`) -/
theorem earley_pnextOK [CommSemiring K] (G : CFG σ K) (order : σ → Nat) (M : Nat) (hA : Acyc G order)
    (hM : OrderBound G order M) : PNextOK G.V (earleyPNext G order) (earleyCall G order) := by
  refine ⟨fun c _ => (earleyNTW_keys G _ _).1, fun c _ t ht => ?_,
    fun c hc t ht => earley_pnext G order M hA hM c hc t ht⟩
  apply get_eq_zero_of_not_key
  intro h
  exact ht ((earleyNTW_keys G _ _).2 t h)

variable [Field K] [DecidableEq K]

/-- **C04, Earley back end, one context**: `c` over the tokens, the string weights of `G` at the extensions
`c ++ [t]` are `Pn t`, and `Pc = Σ_t Pn t ≠ 0` -/
theorem earley_lm_next (G : CFG σ K) (order : σ → Nat) (M : Nat) (hA : Acyc G order)
    (hM : OrderBound G order M) (hV : G.V.Nodup) (c : List σ) (hc : ∀ b ∈ c, b ∈ G.V) (Pc : K)
    (Pn : σ → K)
    (hGP : ∀ t, t ∈ G.V → ∃ n, (c.length + 1) * M + 1 ≤ n ∧ WN G n G.S (c ++ [t]) = Pn t)
    (hcons : Pc = (G.V.map Pn).sum) (h0 : Pc ≠ 0) :
    chartSum (earleyPNext G order c) = Pc
    ∧ (∀ t, t ∈ G.V → PyChart.get (normalize (earleyPNext G order c)) t = Pn t / Pc)
    ∧ (∀ t, t ∉ G.V → PyChart.get (normalize (earleyPNext G order c)) t = 0)
    ∧ chartSum (normalize (earleyPNext G order c)) = 1 := by
  have hok := earley_pnextOK G order M hA hM
  refine chart_link G.V hV _ Pc Pn (hok.nodup c hc) (hok.out c hc) (fun t ht => ?_) hcons h0
  obtain ⟨n, hn, h⟩ := hGP t ht
  rw [← h]
  exact earley_pnext_is_WN G order M hA hM c hc t ht n hn

/-- **C04, Earley back end.**  `G` is the grammar the Earley parser runs on (after `nullaryremove`,
`unarycycleremove`: `Acyc G order`, `OrderBound G order M`), with string weights `P` at some level past
`|c| · M + 1` (where `WN` has stabilised: `WN_stable`).  Same conclusions as `cky_lm_correct`. -/
theorem earley_lm_correct (G : CFG σ K) (order : σ → Nat) (M : Nat) (hA : Acyc G order)
    (hM : OrderBound G order M) (hV : G.V.Nodup) (eos : σ) (heos : eos ∈ G.V) (P : List σ → K)
    (hGP : ∀ c, (∀ b ∈ c, b ∈ G.V) → c ≠ [] → ∃ n, c.length * M + 1 ≤ n ∧ WN G n G.S c = P c)
    (hcons : ∀ c, (∀ b ∈ c, b ∈ G.V) → eos ∉ c → P c = (G.V.map fun t => P (c ++ [t])).sum) :
    (∀ c, (∀ b ∈ c, b ∈ G.V) → eos ∉ c → P c ≠ 0 →
      chartSum (earleyPNext G order c) = P c
      ∧ (∀ t, t ∈ G.V → PyChart.get (normalize (earleyPNext G order c)) t = P (c ++ [t]) / P c)
      ∧ (∀ t, t ∉ G.V → PyChart.get (normalize (earleyPNext G order c)) t = 0)
      ∧ chartSum (normalize (earleyPNext G order c)) = 1)
    ∧ (∀ x, (∀ b ∈ x, b ∈ G.V) → eos ∉ x → (∀ i, i ≤ x.length → P (x.take i) ≠ 0) →
      lmCall (fun c t => PyChart.get (normalize (earleyPNext G order c)) t) (x ++ [eos])
        = P (x ++ [eos]) / P []) := by
  have hpn : PNextOK G.V (earleyPNext G order) P := by
    refine (earley_pnextOK G order M hA hM).congr (fun c hc hne => ?_)
    obtain ⟨n, hn, h⟩ := hGP c hc hne
    rw [← h, earley_correct G order M hA hM c hc n hn]
  refine ⟨fun c hc he h0 => lm_next G.V hV _ P hpn c hc (hcons c hc he) h0, ?_⟩
  intro x hx he h0
  refine lm_call G.V hV _ P hpn eos heos x hx (fun i _ => ?_) h0
  exact hcons _ (fun b hb => hx b (List.mem_of_mem_take hb)) (fun h => he (List.mem_of_mem_take h))

end Earley

/-! ### where the consistency equation comes from -/
section Consistency
variable {σ K : Type} [DecidableEq σ] [CommSemiring K]

/-- if the prefix weights of `G'` stabilise at `P` and no `eos`-free string is in the language of `G'`, then
`P` is consistent on the `eos`-free contexts -/
theorem prefix_limit_consistent (G' : CFG σ K) (hV : G'.V.Nodup) (eos : σ) (P : List σ → K)
    (hlim : ∀ c, ∃ N, ∀ n, N ≤ n → prefixWN G' n c = P c)
    (hz : ∀ c, eos ∉ c → ∀ n, WN G' n G'.S c = 0) (c : List σ) (he : eos ∉ c) :
    P c = (G'.V.map fun t => P (c ++ [t])).sum := by
  obtain ⟨N1, h1⟩ := hlim c
  obtain ⟨N2, h2⟩ := exists_uniform G'.V (fun t n => prefixWN G' n (c ++ [t]) = P (c ++ [t]))
    (fun t _ => hlim (c ++ [t]))
  rw [← h1 (max N1 N2) (Nat.le_max_left _ _),
    prefixWN_consistent_of_zero G' hV (max N1 N2) c (hz c he _)]
  congr 1; apply List.map_congr_left; intro t ht
  exact h2 t ht _ (Nat.le_max_right _ _)

/-- every string of `add_EOS G` ends with `eos` -/
theorem addEOS_WN_zero_of_no_eos (G : CFG σ K) (S' eos : σ)
    (hS' : S' ≠ G.S ∧ ∀ r ∈ G.rules, r.head ≠ S' ∧ S' ∉ r.body)
    (heos : eos ≠ G.S ∧ ∀ r ∈ G.rules, eos ∉ r.body) (hS : G.S ∉ G.V) (c : List σ) (hc : eos ∉ c)
    (n : Nat) : WN (addEOS G S' eos) n (addEOS G S' eos).S c = 0 := by
  cases n with
  | zero => rfl
  | succ n =>
    apply addEOS_zero G S' eos hS' heos hS n c
    rintro ⟨x, rfl, _⟩
    exact hc (by simp)

/-- the prefix weights of `add_EOS G` are consistent on the `eos`-free contexts, level by level -/
theorem addEOS_prefix_consistent (G : CFG σ K) (S' eos : σ)
    (hS' : S' ≠ G.S ∧ ∀ r ∈ G.rules, r.head ≠ S' ∧ S' ∉ r.body)
    (heos : eos ≠ G.S ∧ ∀ r ∈ G.rules, eos ∉ r.body) (hS : G.S ∉ G.V)
    (hV : (addEOS G S' eos).V.Nodup) (n : Nat) (c : List σ) (hc : eos ∉ c) :
    prefixWN (addEOS G S' eos) n c
      = ((addEOS G S' eos).V.map fun t => prefixWN (addEOS G S' eos) n (c ++ [t])).sum :=
  prefixWN_consistent_of_zero _ hV n c (addEOS_WN_zero_of_no_eos G S' eos hS' heos hS c hc n)

end Consistency

/-! ### everything chained -/
section Chain
variable {σ K : Type} [DecidableEq σ] [Field K] [DecidableEq K]

/-- **C03 + C04 for `CKYLM`.**  `G' = add_EOS G`; `P c` is the value at which the prefix weight
`prefixWN G' n c = Σ_{x, c <+: x} (weight of the derivations of x of height ≤ n)` stabilises; `H` is a grammar
in CNF over the same tokens whose string weights are `P` (by `prefix_weight_limit` the prefix grammar
`compose G' (prefixT G'.V)` is such a grammar, up to the normal-form conversion).  Then `CKYLM(H)` computes the
conditionals `P (c ++ [t]) / P c` and the string probabilities `P (x ++ [eos]) / P []`. -/
theorem cky_lm_of_addEOS (G : CFG σ K) (S' eos : σ)
    (hS' : S' ≠ G.S ∧ ∀ r ∈ G.rules, r.head ≠ S' ∧ S' ∉ r.body)
    (heos : eos ≠ G.S ∧ ∀ r ∈ G.rules, eos ∉ r.body) (hS : G.S ∉ G.V)
    (H : CFG σ K) (hcnf : InCNF H) (hHV : H.V = (addEOS G S' eos).V) (hV : H.V.Nodup)
    (P : List σ → K)
    (hlim : ∀ c, ∃ N, ∀ n, N ≤ n → prefixWN (addEOS G S' eos) n c = P c)
    (hHP : ∀ c, (∀ b ∈ c, b ∈ H.V) → c ≠ [] → ∃ n, c.length + 1 ≤ n ∧ WN H n H.S c = P c) :
    (∀ c, (∀ b ∈ c, b ∈ H.V) → eos ∉ c → P c ≠ 0 →
      (∀ t, t ∈ H.V → PyChart.get (normalize (incCkyPNext H c)) t = P (c ++ [t]) / P c)
      ∧ chartSum (normalize (incCkyPNext H c)) = 1)
    ∧ (∀ x, (∀ b ∈ x, b ∈ H.V) → eos ∉ x → (∀ i, i ≤ x.length → P (x.take i) ≠ 0) →
      lmCall (fun c t => PyChart.get (normalize (incCkyPNext H c)) t) (x ++ [eos])
        = P (x ++ [eos]) / P []) := by
  have heosV : eos ∈ H.V := by rw [hHV]; simp [addEOS]
  have hcons : ∀ c, (∀ b ∈ c, b ∈ H.V) → eos ∉ c → P c = (H.V.map fun t => P (c ++ [t])).sum := by
    intro c _ he
    rw [hHV]
    exact prefix_limit_consistent (addEOS G S' eos) (hHV ▸ hV) eos P hlim
      (fun c hc n => addEOS_WN_zero_of_no_eos G S' eos hS' heos hS c hc n) c he
  obtain ⟨h1, h2⟩ := cky_lm_correct H hcnf hV eos heosV P hHP hcons
  exact ⟨fun c hc he h0 => ⟨(h1 c hc he h0).2.1, (h1 c hc he h0).2.2.2⟩, h2⟩

end Chain

/-! ### non-vacuity (weights in `ℚ`) -/
section Examples

/-- the CNF prefix grammar of the two-string language `eos ↦ 1/4`, `a eos ↦ 3/4` (`a = 5`, `eos = 9`):
`S → ε (1) | eos (1/4) | a (3/4) | A E (3/4)`, `A → a`, `E → eos`; `S = 0`, `A = 1`, `E = 2` -/
private def lmH : CFG ℕ ℚ :=
  ⟨0, [5, 9], [⟨1, 0, []⟩, ⟨1/4, 0, [9]⟩, ⟨3/4, 0, [5]⟩, ⟨3/4, 0, [1, 2]⟩, ⟨1, 1, [5]⟩, ⟨1, 2, [9]⟩]⟩

/-- its prefix weights -/
private def lmP (c : List ℕ) : ℚ :=
  if c = [] then 1 else if c = [9] then 1/4 else if c = [5] then 3/4 else if c = [5, 9] then 3/4 else 0

private theorem lmH_cnf : InCNF lmH := by
  intro r hr
  simp only [lmH, List.mem_cons, List.not_mem_nil, or_false] at hr
  rcases hr with rfl | rfl | rfl | rfl | rfl | rfl
  · exact ⟨by decide, Or.inl ⟨rfl, rfl⟩⟩
  · exact ⟨by decide, Or.inr (Or.inl ⟨9, rfl, by decide⟩)⟩
  · exact ⟨by decide, Or.inr (Or.inl ⟨5, rfl, by decide⟩)⟩
  · exact ⟨by decide, Or.inr (Or.inr ⟨1, 2, rfl, by decide, by decide, by decide, by decide⟩)⟩
  · exact ⟨by decide, Or.inr (Or.inl ⟨5, rfl, by decide⟩)⟩
  · exact ⟨by decide, Or.inr (Or.inl ⟨9, rfl, by decide⟩)⟩

-- the charts the model computes
example : incCkyPNext lmH [] = [(5, 3/4), (9, 1/4)] := by decide +kernel
example : incCkyPNext lmH [5] = [(5, 0), (9, 3/4)] := by decide +kernel
example : normalize (incCkyPNext lmH [5]) = [(5, 0), (9, 1)] := by decide +kernel

/-- `cky_lm_next` at the context `a`: all hypotheses are met and the conclusion is not `0 = 0` -/
example :
    chartSum (incCkyPNext lmH [5]) = lmP [5]
    ∧ (∀ t, t ∈ lmH.V → PyChart.get (normalize (incCkyPNext lmH [5])) t = lmP ([5] ++ [t]) / lmP [5])
    ∧ (∀ t, t ∉ lmH.V → PyChart.get (normalize (incCkyPNext lmH [5])) t = 0)
    ∧ chartSum (normalize (incCkyPNext lmH [5])) = 1 := by
  refine cky_lm_next lmH lmH_cnf (by decide) [5] (lmP [5]) (fun t => lmP ([5] ++ [t])) ?_
    (by decide +kernel) (by decide +kernel)
  intro t ht
  simp only [lmH, List.mem_cons, List.not_mem_nil, or_false] at ht
  rcases ht with rfl | rfl <;> exact ⟨3, Nat.le_refl _, by decide +kernel⟩
example : lmP ([5] ++ [9]) / lmP [5] = 1 := by decide +kernel

/-! the hypotheses of the global theorem `cky_lm_correct` hold for `lmH`, `lmP` -/

private theorem lmH_pre (X a : ℕ) (hf : lmH.rules.filter (fun r => r.head = X) = [⟨1, X, [a]⟩])
    (ha : a ∈ lmH.V) (n : ℕ) (u : List ℕ) (hu : u ≠ [a]) : WN lmH n X u = 0 := by
  cases n with
  | zero => rfl
  | succ n =>
    simp only [WN]
    rw [hf]
    simp only [List.map_cons, List.map_nil, lsum_eq_sum, List.sum_cons, List.sum_nil, add_zero, one_mul]
    rw [Wbody_singleton]
    unfold Wsym
    rw [if_pos ha, if_neg hu]

private theorem lmH_long (n : ℕ) (c : List ℕ) (hc : 3 ≤ c.length) : WN lmH n 0 c = 0 := by
  cases n with
  | zero => rfl
  | succ n =>
    have hf : lmH.rules.filter (fun r => r.head = 0)
        = [⟨1, 0, []⟩, ⟨1/4, 0, [9]⟩, ⟨3/4, 0, [5]⟩, ⟨3/4, 0, [1, 2]⟩] := by decide +kernel
    have h0 : c ≠ [] := by intro h; subst h; simp at hc
    have h9 : c ≠ [9] := by intro h; subst h; simp at hc
    have h5 : c ≠ [5] := by intro h; subst h; simp at hc
    simp only [WN]
    rw [hf]
    simp only [List.map_cons, List.map_nil, lsum_eq_sum, List.sum_cons, List.sum_nil, add_zero]
    have t1 : Wbody lmH.V (WN lmH n) [] c = 0 := by simp only [Wbody, if_neg h0]
    have t2 : Wbody lmH.V (WN lmH n) [9] c = 0 := by
      rw [Wbody_singleton]; unfold Wsym; rw [if_pos (by decide), if_neg h9]
    have t3 : Wbody lmH.V (WN lmH n) [5] c = 0 := by
      rw [Wbody_singleton]; unfold Wsym; rw [if_pos (by decide), if_neg h5]
    have t4 : Wbody lmH.V (WN lmH n) [1, 2] c = 0 := by
      simp only [Wbody, lsum_eq_sum]
      apply sum_map_zero
      intro p hp
      have hsp : p.1 ++ p.2 = c := (mem_splits c p.1 p.2).mp hp
      by_cases hu : p.1 = [5]
      · by_cases hv : p.2 = [9]
        · rw [← hsp, hu, hv] at hc; simp at hc
        · have : ((splits p.2).map fun q => Wsym lmH.V (WN lmH n) 2 q.1
              * (if q.2 = [] then (1 : ℚ) else 0)).sum = 0 := by
            rw [sum_splits_right_nil p.2 (fun u => Wsym lmH.V (WN lmH n) 2 u)]
            unfold Wsym
            rw [if_neg (by decide)]
            exact lmH_pre 2 9 (by decide +kernel) (by decide) n p.2 hv
          rw [this, mul_zero]
      · have : Wsym lmH.V (WN lmH n) 1 p.1 = 0 := by
          unfold Wsym
          rw [if_neg (by decide)]
          exact lmH_pre 1 5 (by decide +kernel) (by decide) n p.1 hu
        rw [this, zero_mul]
    rw [t1, t2, t3, t4]
    simp

private theorem lmP_long (c : List ℕ) (hc : 3 ≤ c.length) : lmP c = 0 := by
  have h0 : c ≠ [] := by intro h; subst h; simp at hc
  have h9 : c ≠ [9] := by intro h; subst h; simp at hc
  have h5 : c ≠ [5] := by intro h; subst h; simp at hc
  have h59 : c ≠ [5, 9] := by intro h; subst h; simp at hc
  simp only [lmP, if_neg h0, if_neg h9, if_neg h5, if_neg h59]

/-- the string weights of `lmH` are `lmP` -/
private theorem lmH_weights (c : List ℕ) (hc : ∀ b ∈ c, b ∈ lmH.V) (_ : c ≠ []) :
    ∃ n, c.length + 1 ≤ n ∧ WN lmH n lmH.S c = lmP c := by
  have hmem : ∀ b, b ∈ lmH.V → b = 5 ∨ b = 9 := by
    intro b hb
    simpa [lmH] using hb
  match c, hc with
  | [], _ => exact ⟨1, Nat.le_refl _, by decide +kernel⟩
  | [a], hc =>
    rcases hmem a (hc a (by simp)) with rfl | rfl <;> exact ⟨2, Nat.le_refl _, by decide +kernel⟩
  | [a, b], hc =>
    rcases hmem a (hc a (by simp)) with rfl | rfl <;> rcases hmem b (hc b (by simp)) with rfl | rfl <;>
      exact ⟨3, Nat.le_refl _, by decide +kernel⟩
  | a :: b :: d :: rest, _ =>
    refine ⟨rest.length + 4, by simp, ?_⟩
    rw [lmP_long _ (by simp)]
    exact lmH_long _ _ (by simp)

/-- `lmP` is consistent on the `eos`-free contexts -/
private theorem lmP_consistent (c : List ℕ) (hc : ∀ b ∈ c, b ∈ lmH.V) (he : (9 : ℕ) ∉ c) :
    lmP c = (lmH.V.map fun t => lmP (c ++ [t])).sum := by
  have hmem : ∀ b, b ∈ c → b = 5 := by
    intro b hb
    have : b = 5 ∨ b = 9 := by simpa [lmH] using hc b hb
    rcases this with h | h
    · exact h
    · exact absurd (h ▸ hb) he
  match c, hmem with
  | [], _ => decide +kernel
  | [a], hm => rw [hm a (by simp)]; decide +kernel
  | a :: b :: rest, _ =>
    simp only [lmH, List.map_cons, List.map_nil, List.sum_cons, List.sum_nil]
    rw [lmP_long (a :: b :: rest ++ [5]) (by simp), lmP_long (a :: b :: rest ++ [9]) (by simp)]
    have h0 : a :: b :: rest ≠ [] := by simp
    have h9 : a :: b :: rest ≠ [9] := by simp
    have h5 : a :: b :: rest ≠ [5] := by simp
    have h59 : a :: b :: rest ≠ [5, 9] := by
      intro h
      have : b = 9 := by simpa using (List.cons.inj (List.cons.inj h).2).1
      exact he (by simp [this])
    simp only [lmP, if_neg h0, if_neg h9, if_neg h5, if_neg h59, add_zero]

/-- **all hypotheses of `cky_lm_correct` are satisfiable together**, and the conclusions are informative:
`p_next(a)[eos] = 1`, `LM(a eos) = 3/4` -/
example :
    PyChart.get (normalize (incCkyPNext lmH [5])) 9 = lmP ([5] ++ [9]) / lmP [5]
    ∧ lmCall (fun c t => PyChart.get (normalize (incCkyPNext lmH c)) t) ([5] ++ [9]) = lmP ([5] ++ [9]) / lmP [] := by
  obtain ⟨h1, h2⟩ := cky_lm_correct lmH lmH_cnf (by decide) 9 (by decide) lmP lmH_weights lmP_consistent
  exact ⟨(h1 [5] (by decide) (by decide) (by decide +kernel)).2.1 9 (by decide),
    h2 [5] (by decide) (by decide) (by decide +kernel)⟩
example : lmP ([5] ++ [9]) / lmP [] = 3/4 := by decide +kernel

/-- the Earley back end on the same grammar (`order = 0` everywhere, `M = 1`): `earley_lm_next` at the
context `a` -/
example :
    chartSum (earleyPNext lmH (fun _ => 0) [5]) = lmP [5]
    ∧ (∀ t, t ∈ lmH.V →
        PyChart.get (normalize (earleyPNext lmH (fun _ => 0) [5])) t = lmP ([5] ++ [t]) / lmP [5])
    ∧ (∀ t, t ∉ lmH.V → PyChart.get (normalize (earleyPNext lmH (fun _ => 0) [5])) t = 0)
    ∧ chartSum (normalize (earleyPNext lmH (fun _ => 0) [5])) = 1 := by
  refine earley_lm_next lmH (fun _ => 0) 1 (by decide +kernel) (by decide +kernel) (by decide) [5]
    (by decide) (lmP [5]) (fun t => lmP ([5] ++ [t])) ?_ (by decide +kernel) (by decide +kernel)
  intro t ht
  simp only [lmH, List.mem_cons, List.not_mem_nil, or_false] at ht
  rcases ht with rfl | rfl <;> exact ⟨3, Nat.le_refl _, by decide +kernel⟩
example : earleyPNext lmH (fun _ => 0) [5] = [(9, 3/4)] := by decide +kernel

/-- … and the global theorem `earley_lm_correct` (the level bound `|c| · M + 1` is `|c| + 1`) -/
example :
    lmCall (fun c t => PyChart.get (normalize (earleyPNext lmH (fun _ => 0) c)) t) ([5] ++ [9])
      = lmP ([5] ++ [9]) / lmP [] := by
  obtain ⟨_, h2⟩ := earley_lm_correct lmH (fun _ => 0) 1 (by decide +kernel) (by decide +kernel)
    (by decide) 9 (by decide) lmP
    (fun c hc hne => by
      obtain ⟨n, hn, h⟩ := lmH_weights c hc hne
      exact ⟨n, by omega, h⟩)
    lmP_consistent
  exact h2 [5] (by decide) (by decide) (by decide +kernel)

end Examples

end Genlm
