import GenlmModel.Model.Gaps
import GenlmModel.Proofs.Cky
import GenlmModel.Proofs.ComposeCore
import GenlmModel.Proofs.LimTransforms2

/-! # `CFG.language`, `CFG.materialize` (property C02, gap D of task E7)

Python (`cfg.py`):

    def language(self, depth):                      # docstring: "derivations up to the given depth"
        lang = self.R.chart()
        for d in self.derivations(self.S, depth): lang[d.Yield()] += d.weight()
        return lang
    def materialize(self, max_length):
        depth = max(max_length, 1)
        return self.cnf.language(depth).filter(lambda x: len(x) <= max_length)

What the code does.  `materialize` does NOT enumerate the derivations of the grammar itself (there may be infinitely
many per string): it first converts to Chomsky normal form (`self.cnf`: `separate_terminals`, `nullaryremove`
— which needs the null weights —, `trim`, `unaryremove` — which needs the closure of the unary graph —, `trim`) and
enumerates ALL derivation trees of height `≤ max(n, 1)` of the CNF grammar, accumulating their weights per yield, then
drops the yields longer than `n`.  The enumeration terminates for every grammar (heights are bounded); it is exact on
the strings of length `≤ n` because in a CNF grammar every derivation tree of a string `x` has height `≤ max |x| 1`
(`cnf_WN_stable_E7D`: a binary node splits its span into two non-empty parts, the start symbol — the only nullable
one — does not occur in a body).  For the strings LONGER than `n` the chart `language(depth)` holds partial sums
only (the trees of height `≤ depth`); these are exactly the entries the final `filter` removes.

Models (`Model/Gaps.lean`): `language G d = accum (yields G d S)`, `materializeOf C n` (`C` stands for `self.cnf`).

Results (any commutative semiring unless stated):
* `mem_language`, `language_keys_nodup`, `wlook_language` — the chart `language(d)`: its keys are the yields of the
  derivation trees of height `≤ d`, the value at `x` is `WN G d S x`;
* `cnf_WN_stable_E7D` — in a CNF grammar `WN C m X x = WN C n X x` as soon as `max |x| 1 ≤ n ≤ m` (one level tighter than
  `cky_correct`, and tight: `depth = max_length` is the least depth that works);
* `mem_materializeOf_general` — for `C` in CNF: `(x, v) ∈ materialize(n)` iff `|x| ≤ n`, `x` is the yield of a derivation
  tree, and `v` is the FULL derivation sum `WN C m S x` (any `m ≥ max n 1`, i.e. all trees);
* **`mem_materializeOf`** — if moreover the rule weights are non-zero (`CFG.add` guarantees it), the semiring has no zero
  divisors and is zero-sum-free: `(x, v) ∈ materialize(n) ↔ |x| ≤ n ∧ v = WN C m S x ∧ v ≠ 0` — the keys are EXACTLY the
  strings of length `≤ n` of non-zero weight, with these weights; `materializeOf_keys_nodup`, `wlook_materializeOf`;
  `exCancel`: without zero-sum-freeness (the `Real` semiring with a negative weight) the chart has a key of value `0`;
* **`mem_materializeOf_WL`**, `wlook_materializeOf_WL`, **`materialize_cnfL`** — over `ℝ≥0∞`, for the grammar `cnf()`
  produces with the true null weights and unary closure (`cnfL`, `Proofs/LimTransforms2.lean`), from ANY grammar `G`
  (cyclic nullable / unary parts included): `(x, v) ∈ materialize(n) ↔ |x| ≤ n ∧ v = WL G S x ∧ v ≠ 0`, where
  `WL G S x` is the sum over ALL derivation trees of `x` in `G`.
Helper lemmas carry the tag `E7D`. -/
namespace Genlm
set_option linter.unusedSectionVars false
open UnfoldAux WfsaAux ComposeAux

/-! ### the chart `language(depth)` -/
section Language
variable {σ K : Type} [DecidableEq σ] [CommSemiring K]

/-- the accumulated weight of the key `x` in the list of the `(yield, weight)` of the derivation trees -/
theorem wlook_yields_E7D (G : CFG σ K) (d : Nat) (X : σ) (x : List σ) :
    wlook (yields G d X) x = WN G d X x := by
  rw [yields_WN, wsum_eq, wlook_eq_sum_ite]
  apply congrArg
  apply List.map_congr_left
  intro p _
  by_cases h : p.1 = x <;> simp [h]

/-- **`language(d)`, values**: the chart gives `x` the sum of the weights of its derivation trees of height `≤ d`
(`0` when `x` is not a key) -/
theorem wlook_language (G : CFG σ K) (d : Nat) (x : List σ) : wlook (language G d) x = WN G d G.S x := by
  rw [language, wlook_accum, wlook_yields_E7D]

/-- a chart has one entry per key -/
theorem language_keys_nodup (G : CFG σ K) (d : Nat) : ((language G d).map (·.1)).Nodup := by
  unfold language accum
  rw [List.map_map]
  have : ((fun q : List σ × K => q.1) ∘ fun i => (i, wlook (yields G d G.S) i)) = id := rfl
  rw [this, List.map_id]
  exact nodup_eraseDups _

/-- **`language(d)`, entries**: `(x, v)` is an entry iff `x` is the yield of a derivation tree of height `≤ d` and `v` is
the sum of the weights of all such trees -/
theorem mem_language (G : CFG σ K) (d : Nat) (x : List σ) (v : K) :
    (x, v) ∈ language G d ↔ (∃ p ∈ yields G d G.S, p.1 = x) ∧ v = WN G d G.S x := by
  simp only [language, accum, List.mem_map, List.mem_eraseDups, Prod.mk.injEq]
  constructor
  · rintro ⟨i, ⟨p, hp, rfl⟩, rfl, rfl⟩
    exact ⟨⟨p, hp, rfl⟩, wlook_yields_E7D G d G.S p.1⟩
  · rintro ⟨⟨p, hp, rfl⟩, rfl⟩
    exact ⟨p.1, ⟨p, hp, rfl⟩, rfl, wlook_yields_E7D G d G.S p.1⟩

/-- `Chart.filter` on values -/
theorem wlook_chartFilter_E7D (f : List σ → Bool) (c : List (List σ × K)) (x : List σ) :
    wlook (chartFilter f c) x = if f x then wlook c x else 0 := by
  rw [chartFilter, wlook_eq_sum_ite, sum_filter_ite, wlook_eq_sum_ite]
  by_cases hf : f x = true
  · rw [if_pos hf]
    apply congrArg
    apply List.map_congr_left
    intro p _
    by_cases hp : p.1 = x
    · simp [hp, hf]
    · simp [hp]
  · rw [if_neg hf]
    apply sum_map_zero
    intro p _
    by_cases hp : p.1 = x
    · simp [hp, hf]
    · simp [hp]

end Language

/-! ### Chomsky normal form: every tree of `x` has height `≤ max |x| 1` -/
section Cnf
variable {σ K : Type} [DecidableEq σ] [CommSemiring K]

/-- the CKY value of a span no longer changes once the fuel reaches `max |x| 1` (one level tighter than
`insN_stable`) -/
theorem insN_stable_E7D (G : CFG σ K) : ∀ (L : Nat) (x : List σ), x.length = L →
    ∀ n m X, max L 1 ≤ n → n ≤ m → insN G m x X = insN G n x X := by
  intro L
  induction L using Nat.strong_induction_on with
  | _ L IH =>
    intro x hx n m X hn hm
    obtain ⟨n', rfl⟩ : ∃ n', n = n' + 1 := ⟨n - 1, by omega⟩
    obtain ⟨m', rfl⟩ : ∃ m', m = m' + 1 := ⟨m - 1, by omega⟩
    simp only [insN, lsum_eq_sum]
    congr 1
    apply List.map_congr_left
    intro r _
    congr 1
    rcases hb : r.body with _ | ⟨a, _ | ⟨b, _ | ⟨c, l⟩⟩⟩
    · simp [ruleTerm, hb]
    · simp [ruleTerm, hb]
    · simp only [ruleTerm, hb, lsum_eq_sum]
      congr 1
      apply List.map_congr_left
      intro p hp
      obtain ⟨hps, hne⟩ := List.mem_filter.mp hp
      have hcat : p.1 ++ p.2 = x := (mem_splits x p.1 p.2).mp hps
      have hlen : p.1.length + p.2.length = L := by rw [← hx, ← hcat, List.length_append]
      simp only [ne_eq, decide_eq_true_eq] at hne
      have h1 : 0 < p.1.length := List.length_pos_iff.mpr hne.1
      have h2 : 0 < p.2.length := List.length_pos_iff.mpr hne.2
      rw [IH p.1.length (by omega) p.1 rfl n' m' a (by omega) (by omega),
          IH p.2.length (by omega) p.2 rfl n' m' b (by omega) (by omega)]
    · simp [ruleTerm, hb]

/-- **in a CNF grammar the derivation sum of `x` is complete at level `max |x| 1`**: every derivation tree of `x` has
height at most `|x|` (at most `1` for the empty string) -/
theorem cnf_WN_stable_E7D (C : CFG σ K) (hC : InCNF C) (x : List σ) (n m : Nat) (X : σ)
    (hn : max x.length 1 ≤ n) (hm : n ≤ m) : WN C m X x = WN C n X x := by
  rw [← insN_eq_WN C hC m x X, ← insN_eq_WN C hC n x X]
  exact insN_stable_E7D C x.length x rfl n m X hn hm

variable [DecidableEq K]

/-- the Boolean check `inCNFb` (the model of `CFG.in_cnf`, `Model/Shape.lean`) gives the predicate `InCNF` -/
theorem inCNF_of_inCNFb (C : CFG σ K) (h : inCNFb C = true) : InCNF C := by
  intro r hr
  have h' := List.all_eq_true.mp h r hr
  simp only [Bool.and_eq_true, decide_eq_true_eq] at h'
  obtain ⟨h1, h2⟩ := h'
  refine ⟨h1, ?_⟩
  rcases hb : r.body with _ | ⟨a, _ | ⟨b, _ | ⟨c, l⟩⟩⟩
  · rw [hb] at h2
    exact Or.inl ⟨rfl, by simpa using h2⟩
  · rw [hb] at h2
    exact Or.inr (Or.inl ⟨a, rfl, by simpa using h2⟩)
  · rw [hb] at h2
    simp only [decide_eq_true_eq] at h2
    exact Or.inr (Or.inr ⟨a, b, rfl, h2⟩)
  · rw [hb] at h2
    simp at h2

end Cnf

/-! ### `materialize`, any commutative semiring -/
section Materialize
variable {σ K : Type} [DecidableEq σ] [CommSemiring K]

theorem mem_materializeOf_E7D (C : CFG σ K) (n : Nat) (e : List σ × K) :
    e ∈ materializeOf C n ↔ e ∈ language C (max n 1) ∧ e.1.length ≤ n := by
  simp [materializeOf, chartFilter, List.mem_filter]

/-- the chart `materialize` returns has one entry per key -/
theorem materializeOf_keys_nodup (C : CFG σ K) (n : Nat) : ((materializeOf C n).map (·.1)).Nodup := by
  unfold materializeOf chartFilter
  exact (language_keys_nodup C (max n 1)).sublist (List.filter_sublist.map _)

/-- **`materialize(n)` on a CNF grammar, any commutative semiring**: the entries are the pairs `(x, v)` with `|x| ≤ n`,
`x` the yield of some derivation tree, and `v` the sum of the weights of ALL derivation trees of `x`
(`WN C m S x` does not depend on `m ≥ max n 1`) -/
theorem mem_materializeOf_general (C : CFG σ K) (hC : InCNF C) (n m : Nat) (hm : max n 1 ≤ m)
    (x : List σ) (v : K) :
    (x, v) ∈ materializeOf C n
      ↔ x.length ≤ n ∧ (∃ p ∈ yields C (max n 1) C.S, p.1 = x) ∧ v = WN C m C.S x := by
  rw [mem_materializeOf_E7D, mem_language]
  constructor
  · rintro ⟨⟨hp, hv⟩, hx⟩
    refine ⟨hx, hp, ?_⟩
    rw [hv, cnf_WN_stable_E7D C hC x (max n 1) m C.S (by simp only [] at hx; omega) hm]
  · rintro ⟨hx, hp, hv⟩
    refine ⟨⟨hp, ?_⟩, hx⟩
    rw [hv, cnf_WN_stable_E7D C hC x (max n 1) m C.S (by omega) hm]

/-- **`materialize(n)`, values**: the chart gives every string of length `≤ n` its full derivation sum and `0` to
every longer string -/
theorem wlook_materializeOf (C : CFG σ K) (hC : InCNF C) (n m : Nat) (hm : max n 1 ≤ m) (x : List σ) :
    wlook (materializeOf C n) x = if x.length ≤ n then WN C m C.S x else 0 := by
  rw [materializeOf, wlook_chartFilter_E7D, wlook_language]
  by_cases hx : x.length ≤ n
  · rw [if_pos (by simpa using hx), if_pos hx,
      cnf_WN_stable_E7D C hC x (max n 1) m C.S (by omega) hm]
  · rw [if_neg (by simpa using hx), if_neg hx]

/-! #### zero-sum-free semirings without zero divisors: key ⇔ non-zero weight -/

theorem sum_eq_zero_iff_E7D (hpos : ∀ a b : K, a + b = 0 → a = 0 ∧ b = 0) (l : List K) :
    l.sum = 0 ↔ ∀ a ∈ l, a = 0 := by
  induction l with
  | nil => simp
  | cons a l ih =>
    simp only [List.sum_cons, List.mem_cons, forall_eq_or_imp]
    constructor
    · intro h
      obtain ⟨h1, h2⟩ := hpos _ _ h
      exact ⟨h1, ih.mp h2⟩
    · rintro ⟨h1, h2⟩
      rw [h1, ih.mpr h2, add_zero]

variable [NoZeroDivisors K] [Nontrivial K]

theorem lbody_weight_ne_zero_E7D (m : σ → List (List σ × K)) (body : List σ)
    (hm : ∀ Y ∈ body, ∀ p ∈ m Y, p.2 ≠ 0) : ∀ p ∈ lbody m body, p.2 ≠ 0 := by
  induction body with
  | nil => intro p hp; simp only [lbody, List.mem_singleton] at hp; subst hp; exact one_ne_zero
  | cons Y Ys ih =>
    intro p hp
    simp only [lbody, lcat, List.mem_flatMap, List.mem_map] at hp
    obtain ⟨q1, hq1, q2, hq2, rfl⟩ := hp
    exact mul_ne_zero (hm Y (by simp) q1 hq1) (ih (fun Z hZ => hm Z (by simp [hZ])) q2 hq2)

/-- the weight of a derivation tree is a product of rule weights: non-zero when these are and there are no zero
divisors -/
theorem yields_weight_ne_zero_E7D (G : CFG σ K) (hnz : ∀ r ∈ G.rules, r.w ≠ 0) (n : Nat) (X : σ) :
    ∀ p ∈ yields G n X, p.2 ≠ 0 := by
  induction n generalizing X with
  | zero => intro p hp; simp [yields] at hp
  | succ n ih =>
    intro p hp
    rw [yields_succ] at hp
    simp only [List.mem_flatMap, List.mem_map, List.mem_filter] at hp
    obtain ⟨r, ⟨hr, _⟩, q, hq, rfl⟩ := hp
    refine mul_ne_zero (hnz r hr) (lbody_weight_ne_zero_E7D (ysym G n) r.body ?_ q hq)
    intro Y _ p' hp'
    unfold ysym at hp'
    split at hp'
    · simp only [List.mem_singleton] at hp'; subst hp'; exact one_ne_zero
    · exact ih Y p' hp'

/-- a string has a derivation tree of height `≤ n` iff its level-`n` weight is non-zero -/
theorem WN_ne_zero_iff_E7D (G : CFG σ K) (hnz : ∀ r ∈ G.rules, r.w ≠ 0)
    (hpos : ∀ a b : K, a + b = 0 → a = 0 ∧ b = 0) (n : Nat) (X : σ) (x : List σ) :
    WN G n X x ≠ 0 ↔ ∃ p ∈ yields G n X, p.1 = x := by
  rw [yields_WN, wsum_eq, Ne, sum_eq_zero_iff_E7D hpos]
  simp only [List.mem_map, forall_exists_index, and_imp, forall_apply_eq_imp_iff₂]
  constructor
  · intro h
    by_contra hno
    apply h
    intro p hp
    rw [if_neg (fun hx => hno ⟨p, hp, hx⟩), mul_zero]
  · rintro ⟨p, hp, rfl⟩ h
    have := h p hp
    rw [if_pos rfl, mul_one] at this
    exact yields_weight_ne_zero_E7D G hnz n X p hp this

/-- **C02, `materialize(n)` tabulates exactly the strings of length `≤ n` of non-zero weight, with their weights**:
for a grammar `C` in Chomsky normal form with non-zero rule weights, over a commutative semiring without zero divisors
in which a sum vanishes only if its terms do, `(x, v)` is an entry of the chart iff `|x| ≤ n`, `v` is the derivation
sum of `x` (over ALL trees: `WN C m S x` for any `m ≥ max n 1`) and `v ≠ 0` -/
theorem mem_materializeOf (C : CFG σ K) (hC : InCNF C) (hnz : ∀ r ∈ C.rules, r.w ≠ 0)
    (hpos : ∀ a b : K, a + b = 0 → a = 0 ∧ b = 0) (n m : Nat) (hm : max n 1 ≤ m) (x : List σ) (v : K) :
    (x, v) ∈ materializeOf C n ↔ x.length ≤ n ∧ v = WN C m C.S x ∧ v ≠ 0 := by
  rw [mem_materializeOf_general C hC n m hm, ← WN_ne_zero_iff_E7D C hnz hpos]
  constructor
  · rintro ⟨hx, hne, hv⟩
    refine ⟨hx, hv, ?_⟩
    rw [hv, cnf_WN_stable_E7D C hC x (max n 1) m C.S (by omega) hm]
    exact hne
  · rintro ⟨hx, hv, hne⟩
    refine ⟨hx, ?_, hv⟩
    rw [← cnf_WN_stable_E7D C hC x (max n 1) m C.S (by omega) hm, ← hv]
    exact hne

end Materialize

/-! ### `materialize` at the limit (`ℝ≥0∞`) -/
section Limit
open scoped ENNReal
variable {σ : Type} [DecidableEq σ] [DecidableEq ℝ≥0∞]

/-- in a CNF grammar the sum over ALL derivation trees of `x` is reached at level `max |x| 1` -/
theorem cnf_WL_eq_WN_E7D (C : CFG σ ℝ≥0∞) (hC : InCNF C) (x : List σ) (m : Nat) (hm : max x.length 1 ≤ m) :
    WL C C.S x = WN C m C.S x :=
  WL_of_stable C C.S x m _ (fun m' hm' => cnf_WN_stable_E7D C hC x m m' C.S hm hm')

/-- **C02 at the limit**: let `C` be a CNF grammar with non-zero rule weights that has the same weighted language as
`G` (what `G.cnf` is: `cnfL_correct`).  Then `materialize(n)` lists exactly the strings `x` of length `≤ n` whose weight
`WL G S x` — the sum over ALL derivation trees of `x` in `G`, possibly infinitely many — is non-zero, with that weight -/
theorem mem_materializeOf_WL (G C : CFG σ ℝ≥0∞) (hC : inCNFb C = true) (hnz : ∀ r ∈ C.rules, r.w ≠ 0)
    (hWL : ∀ x, WL C C.S x = WL G G.S x) (n : Nat) (x : List σ) (v : ℝ≥0∞) :
    (x, v) ∈ materializeOf C n ↔ x.length ≤ n ∧ v = WL G G.S x ∧ v ≠ 0 := by
  have hC' := inCNF_of_inCNFb C hC
  rw [mem_materializeOf C hC' hnz (fun a b h => by simpa using h) n (max n 1) (le_refl _)]
  constructor
  · rintro ⟨hx, hv, hne⟩
    exact ⟨hx, by rw [hv, ← hWL, cnf_WL_eq_WN_E7D C hC' x (max n 1) (by omega)], hne⟩
  · rintro ⟨hx, hv, hne⟩
    exact ⟨hx, by rw [hv, ← hWL, cnf_WL_eq_WN_E7D C hC' x (max n 1) (by omega)], hne⟩

/-- … and as a function: the chart gives `x` the weight `WL G S x` if `|x| ≤ n`, `0` otherwise -/
theorem wlook_materializeOf_WL (G C : CFG σ ℝ≥0∞) (hC : inCNFb C = true)
    (hWL : ∀ x, WL C C.S x = WL G G.S x) (n : Nat) (x : List σ) :
    wlook (materializeOf C n) x = if x.length ≤ n then WL G G.S x else 0 := by
  have hC' := inCNF_of_inCNFb C hC
  rw [wlook_materializeOf C hC' n (max n 1) (le_refl _)]
  by_cases hx : x.length ≤ n
  · rw [if_pos hx, if_pos hx, ← hWL, cnf_WL_eq_WN_E7D C hC' x (max n 1) (by omega)]
  · rw [if_neg hx, if_neg hx]

/-- the grammars `trim` returns have no rule of weight zero -/
theorem trim_rules_ne_zero_E7D {K : Type} [DecidableEq K] [CommSemiring K] (G : CFG σ K) :
    ∀ r ∈ (trim G).rules, r.w ≠ 0 := by
  intro r hr
  simp only [trim, trimTo, List.mem_filter, decide_eq_true_eq] at hr
  exact hr.2.2.1

/-- **`CFG.materialize` is correct at the limit**: for ANY grammar `G` over `ℝ≥0∞` whose start symbol and heads are
nonterminals (cyclic nullable and unary parts, infinitely many trees per string, divergence to `∞` included), the chart
computed from `G.cnf` — with the true null weights and unary closure, fresh names — lists exactly the strings of length
`≤ n` with non-zero weight in `G`, with these weights -/
theorem materialize_cnfL (gen : Nat → σ) (fresh : σ) (rename : σ → σ) (G : CFG σ ℝ≥0∞) (ctr : Nat)
    (hS : G.S ∉ G.V) (hheadV : ∀ r ∈ G.rules, r.head ∉ G.V) (hgen : ∀ i, gen i ∉ G.V)
    (hinj : ∀ i j, ctr < i → ctr < j → gen i = gen j → i = j)
    (hhead : ∀ r ∈ G.rules, ∀ k, ctr < k → r.head ≠ gen k)
    (hbody : ∀ r ∈ G.rules, ∀ s ∈ r.body, ∀ k, ctr < k → s ≠ gen k)
    (hSgen : ∀ k, ctr < k → G.S ≠ gen k)
    (hgenf : ∀ i, gen i ≠ fresh) (hfV : fresh ∉ G.V) (hfS : fresh ≠ G.S)
    (hfh : ∀ r ∈ G.rules, r.head ≠ fresh) (hfb : fresh ∉ bodySyms G)
    (hrenV : ∀ y, rename y ∉ G.V) (hrenInj : ∀ y z, rename y = rename z → y = z)
    (hrenS : ∀ y, rename y ≠ G.S) (hrenF : ∀ y, rename y ≠ fresh)
    (hrenG : ∀ y i, rename y ≠ gen i)
    (hrenH : ∀ y, ∀ r ∈ G.rules, rename y ≠ r.head) (hrenB : ∀ y, rename y ∉ bodySyms G)
    (n : Nat) (x : List σ) (v : ℝ≥0∞) :
    (x, v) ∈ materializeOf (cnfL gen fresh rename G ctr) n ↔ x.length ≤ n ∧ v = WL G G.S x ∧ v ≠ 0 := by
  obtain ⟨h1, h2⟩ := cnfL_correct gen fresh rename G ctr hS hheadV hgen hinj hhead hbody hSgen hgenf hfV hfS
    hfh hfb hrenV hrenInj hrenS hrenF hrenG hrenH hrenB
  exact mem_materializeOf_WL G _ h1 (trim_rules_ne_zero_E7D _) h2 n x v

end Limit

/-! ### non-vacuity and a counterexample -/
section Examples
open scoped ENNReal

/-- a CNF grammar over `ℕ`: `0 → ε (7) | 1 1 (2) | 5 (4)`, `1 → 5 (3)`, terminal `5` -/
def exMatC : CFG ℕ ℕ := ⟨0, [5], [⟨7, 0, []⟩, ⟨2, 0, [1, 1]⟩, ⟨3, 1, [5]⟩, ⟨4, 0, [5]⟩]⟩

theorem exMatC_cnf : InCNF exMatC := inCNF_of_inCNFb exMatC (by decide)

-- the charts, in insertion order (the order of the derivations)
example : materializeOf exMatC 2 = [([], 7), ([5, 5], 18), ([5], 4)] := by decide
-- `max_length = 0`: depth `1` also reaches the string `5`, which the filter removes
example : language exMatC 1 = [([], 7), ([5], 4)] ∧ materializeOf exMatC 0 = [([], 7)] := by decide
example : ([5, 5], 18) ∈ materializeOf exMatC 2 ↔ [5, 5].length ≤ 2 ∧ 18 = WN exMatC 9 0 [5, 5] ∧ 18 ≠ 0 :=
  mem_materializeOf exMatC exMatC_cnf (by decide) (by intro a b h; omega) 2 9 (by decide) _ _
-- the bound is tight: at depth `max_length - 1` the string `5 5` is missed
example : WN exMatC 1 0 [5, 5] = 0 ∧ WN exMatC 2 0 [5, 5] = 18 := by decide

/-- without zero-sum-freeness (`Real` semiring, a negative weight): two rules `0 → 5` of weights `1` and `-1`; the chart
has the key `5` with value `0` -/
def exCancel : CFG ℕ ℤ := ⟨0, [5], [⟨1, 0, [5]⟩, ⟨-1, 0, [5]⟩]⟩

example : inCNFb exCancel = true ∧ materializeOf exCancel 1 = [([5], 0)] := by decide

/-- over `ℝ≥0∞`, from the cyclic grammar `limCnfG` (`Proofs/LimTransforms2.lean`: `0 → 0 0 | ε | 1 | 0`, every string
has infinitely many derivation trees): the chart of `materialize(n)` lists `x` with the infinite sum `WL limCnfG 0 x` -/
example [DecidableEq ℝ≥0∞] (n : Nat) (x : List ℕ) (v : ℝ≥0∞) :
    (x, v) ∈ materializeOf (cnfL (fun i => 2 * i + 10) 9 (fun y => 2 * y + 101) limCnfG 0) n
      ↔ x.length ≤ n ∧ v = WL limCnfG limCnfG.S x ∧ v ≠ 0 :=
  materialize_cnfL (fun i => 2 * i + 10) 9 (fun y => 2 * y + 101) limCnfG 0
    (by decide)
    (by intro r hr; rw [limCnfG_heads r hr]; decide)
    (by intro i; simp [limCnfG])
    (by intro i j _ _ h; simpa using h)
    (by intro r hr k _; rw [limCnfG_heads r hr]; omega)
    (by intro r hr s hs k _; have := limCnfG_body s (mem_bodySyms.mpr ⟨r, hr, hs⟩); omega)
    (by intro k _; show (0 : ℕ) ≠ _; omega)
    (by intro i; omega)
    (by decide) (by decide)
    (by intro r hr; rw [limCnfG_heads r hr]; decide)
    (by decide)
    (by intro y; simp [limCnfG])
    (by intro y z h; simpa using h)
    (by intro y; show 2 * y + 101 ≠ (0 : ℕ); omega)
    (by intro y; omega)
    (by intro y i; omega)
    (by intro y r hr; rw [limCnfG_heads r hr]; omega)
    (by intro y h; have := limCnfG_body _ h; omega)
    n x v

end Examples

end Genlm
