import GenlmModel.Model.Cfg
import GenlmModel.Model.Horn
/-! Mirror models of the grammar transformations of `genlm/grammar/cfg.py`.
Naming functions (`_gen_nt`, `NotNull`, `Slash`) are parameters; numbers the code computes by
iteration (`null_weight`, the unary closure) are inputs (the transformations are proved *relative*
to them, DESIGN 4.3).  `CFG.add` drops rules of weight zero; the models do the same (`addRule`). -/
namespace Genlm
section
variable {σ K : Type} [DecidableEq σ] [DecidableEq K] [Add K] [Mul K] [Zero K] [One K]

/-- `CFG.add`: skip rules with weight zero -/
def addRule (rs : List (Rule σ K)) (r : Rule σ K) : List (Rule σ K) :=
  if r.w = 0 then rs else rs ++ [r]

def mkRules (rs : List (Rule σ K)) : List (Rule σ K) := rs.filter (fun r => r.w ≠ 0)

def bodySyms (G : CFG σ K) : List σ := G.rules.flatMap (·.body)

/-- `CFG.N`: the start symbol and every head -/
def nonterminals (G : CFG σ K) : List σ := (G.S :: G.rules.map (·.head)).eraseDups

/-- `rename f`: apply `f` to every nonterminal, keep terminals -/
def renameNT (f : σ → σ) (G : CFG σ K) : CFG σ K :=
  { S := f G.S, V := G.V,
    rules := mkRules (G.rules.map fun r => ⟨r.w, f r.head, r.body.map fun y => if y ∈ G.V then y else f y⟩) }

/-- `separate_start`: a new start symbol only if the old one occurs in some body -/
def separateStart (G : CFG σ K) (fresh : σ) : CFG σ K :=
  if G.S ∈ bodySyms G then
    { S := fresh, V := G.V, rules := mkRules (⟨1, fresh, [G.S]⟩ :: G.rules) }
  else G

def isPreterminalRule (V : List σ) (r : Rule σ K) : Bool :=
  match r.body with
  | [a] => decide (a ∈ V)
  | _ => false

/-- state of `separate_terminals`: counter, preterminal table (terminal ↦ new nonterminal), rules so far -/
structure SepT (σ K : Type) where
  ctr : Nat
  table : List (σ × σ)
  rules : List (Rule σ K)

/-- `preterminal(x)`: look up or create (`_gen_nt()`) the preterminal of terminal `x` -/
def SepT.pre (gen : Nat → σ) (st : SepT σ K) (x : σ) : SepT σ K × σ :=
  match st.table.find? (fun e => e.1 = x) with
  | some e => (st, e.2)
  | none =>
    let y := gen (st.ctr + 1)
    ({ ctr := st.ctr + 1, table := st.table ++ [(x, y)], rules := addRule st.rules ⟨1, y, [x]⟩ }, y)

def SepT.body (gen : Nat → σ) (V : List σ) : SepT σ K → List σ → SepT σ K × List σ
  | st, [] => (st, [])
  | st, y :: ys =>
    if y ∈ V then
      let (st1, y') := st.pre gen y
      let (st2, ys') := SepT.body gen V st1 ys
      (st2, y' :: ys')
    else
      let (st2, ys') := SepT.body gen V st ys
      (st2, y :: ys')

/-- `separate_terminals`; returns the grammar and the final `_gen_nt` counter -/
def separateTerminals (gen : Nat → σ) (G : CFG σ K) (ctr : Nat) : CFG σ K × Nat :=
  let st := G.rules.foldl (fun (st : SepT σ K) r =>
      if isPreterminalRule G.V r then { st with rules := addRule st.rules r }
      else
        let (st', b') := SepT.body gen G.V st r.body
        { st' with rules := addRule st'.rules ⟨r.w, r.head, b'⟩ })
    { ctr := ctr, table := [], rules := [] }
  ({ S := G.S, V := G.V, rules := st.rules }, st.ctr)

/-- `binarize`: the stack loop.  `fuel` bounds the number of pops (each fold shortens a body). -/
def binarizeLoop (gen : Nat → σ) : Nat → List (Rule σ K) → Nat → List (Rule σ K) → List (Rule σ K) × Nat
  | 0, _, ctr, acc => (acc, ctr)
  | fuel+1, stack, ctr, acc =>
    match stack.reverse with
    | [] => (acc, ctr)
    | p :: restRev =>
      let rest := restRev.reverse
      match p.body with
      | a :: b :: c :: tl =>
        let h := gen (ctr + 1)
        -- `_fold(p, [(0,1)])` returns [new binary rule, shortened head rule]; `stack.extend` pushes both
        binarizeLoop gen fuel (rest ++ [⟨1, h, [a, b]⟩, ⟨p.w, p.head, h :: c :: tl⟩]) (ctr + 1) acc
      | _ => binarizeLoop gen fuel rest ctr (addRule acc p)

def binarize (gen : Nat → σ) (G : CFG σ K) (ctr : Nat) : CFG σ K × Nat :=
  let fuel := G.rules.length + 2 * (G.rules.map (·.body.length)).foldr (· + ·) 0 + 1
  let (rs, c) := binarizeLoop gen fuel G.rules ctr []
  ({ S := G.S, V := G.V, rules := rs }, c)

/-- all 0/1 choices for a body, as in `product([0,1], repeat=len(body))`:
(weight factor from the symbols replaced by their null weight, remaining renamed body) -/
def nullChoices (nullW : σ → K) (f : σ → σ) : List σ → List (K × List σ)
  | [] => [(1, [])]
  | y :: ys =>
    let rest := nullChoices nullW f ys
    (rest.map fun p => (p.1, f y :: p.2)) ++ (rest.map fun p => (nullW y * p.1, p.2))

/-- `_push_null_weights(null_weight, rename)` -/
def pushNull (nullW : σ → K) (rename : σ → σ) (G : CFG σ K) : CFG σ K :=
  let f := fun x => if nullW x = 0 ∨ x = G.S then x else rename x
  let rs := G.rules.flatMap fun r =>
    if r.body = [] then [] else
      ((nullChoices nullW f r.body).filter (fun p => p.2 ≠ [])).map fun p => (⟨r.w * p.1, f r.head, p.2⟩ : Rule σ K)
  { S := G.S, V := G.V, rules := mkRules (⟨nullW G.S, G.S, []⟩ :: rs) }

def isUnaryRule (V : List σ) (r : Rule σ K) : Bool :=
  match r.body with
  | [y] => decide (y ∉ V)
  | _ => false

/-- `unaryremove` given the closure `W` of the unary graph -/
def unaryRemove (W : σ → σ → K) (G : CFG σ K) : CFG σ K :=
  let N := nonterminals G
  { S := G.S, V := G.V,
    rules := mkRules ((G.rules.filter (fun r => !isUnaryRule G.V r)).flatMap fun r =>
      N.map fun Y => ⟨W Y r.head * r.w, Y, r.body⟩) }

/-- `unfold(i, k)` -/
def unfoldRule (G : CFG σ K) (i k : Nat) : Option (CFG σ K) :=
  match G.rules[i]? with
  | none => none
  | some s =>
    match s.body[k]? with
    | none => none
    | some y =>
      if y ∈ G.V then none else
      let others := (G.rules.zipIdx.filter (fun p => p.2 ≠ i)).map (·.1)
      let news := (G.rules.filter (fun r => r.head = y)).map fun r =>
        (⟨s.w * r.w, s.head, s.body.take k ++ r.body ++ s.body.drop (k+1)⟩ : Rule σ K)
      some { S := G.S, V := G.V, rules := mkRules (others ++ news) }

/-! ### trim: generating and reachable symbols as least models of Horn programs -/

/-- generating symbols: terminals are facts; a head is generating once its whole body is -/
def genClauses (G : CFG σ K) : List (Clause σ) :=
  (G.V.map fun a => ⟨[], a⟩) ++ (G.rules.map fun r => ⟨r.body, r.head⟩)

def generating (G : CFG σ K) : List σ := hlfp (genClauses G)

/-- reachable symbols, following only rules whose whole body is generating -/
def reachClauses (G : CFG σ K) (C : List σ) : List (Clause σ) :=
  (if G.S ∈ C then [⟨[], G.S⟩] else []) ++
  ((G.rules.filter (fun r => r.body.all (· ∈ C))).flatMap fun r => r.body.map fun b => ⟨[r.head], b⟩)

def reachable (G : CFG σ K) (C : List σ) : List σ := hlfp (reachClauses G C)

/-- `_trim(symbols)` -/
def trimTo (G : CFG σ K) (T : List σ) : CFG σ K :=
  { S := G.S, V := G.V,
    rules := G.rules.filter (fun r => r.head ∈ T ∧ r.w ≠ 0 ∧ r.body.all (· ∈ T)) }

/-- `trim()` -/
def trim (G : CFG σ K) : CFG σ K := trimTo G (reachable G (generating G))
/-- `trim(bottomup_only=True)` = `cotrim()` -/
def cotrim (G : CFG σ K) : CFG σ K := trimTo G (generating G)

/-- `derivative(a, i)` given the null weights `U`; `slash x` is `Slash(x, a, i)` -/
def derivative (slash : σ → σ) (U : σ → K) (a : σ) (G : CFG σ K) : CFG σ K :=
  let N := nonterminals G
  let rs := G.rules.flatMap fun r =>
    let rec go (k : Nat) (ys : List σ) (delta : K) : List (Rule σ K) :=
      match ys with
      | [] => []
      | y :: rest =>
        let here : List (Rule σ K) :=
          if slash r.head ∈ N then []            -- SKIP!
          else if y ∈ G.V then (if y = a then [⟨delta * r.w, slash r.head, rest⟩] else [])
          else [⟨delta * r.w, slash r.head, slash y :: rest⟩]
        -- Python `continue`s before `delta *= U[y]` when it skips, so delta stays unchanged then
        here ++ go (k+1) rest (if slash r.head ∈ N then delta else delta * U y)
    r :: go 0 r.body 1
  { S := slash G.S, V := G.V, rules := mkRules rs }

/-- `CFG.to_bytes` with an arbitrary encoder (UTF-8 in the driver) -/
def cfgToBytes (enc : σ → List σ) (G : CFG σ K) : CFG σ K :=
  { S := G.S,
    V := (G.rules.flatMap fun r => r.body.flatMap fun y => if y ∈ G.V then enc y else []).eraseDups,
    rules := mkRules (G.rules.map fun r => ⟨r.w, r.head, r.body.flatMap fun y => if y ∈ G.V then enc y else [y]⟩) }

end
end Genlm
