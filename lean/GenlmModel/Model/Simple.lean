import GenlmModel.Model.WfsaOps2
import GenlmModel.Model.Tzeng
/-! Executable mirror model of `WFSA.simple` and `Simple.to_wfsa` (`genlm/grammar/wfsa/field_wfsa.py`): the conversion
of an automaton with ε arcs to the matrix form `Simple(start, arcs, stop)` (the type `MAut` of `Model/Cert.lean`) on
which `counterexample` / `__eq__` / `min` work (`Model/Tzeng.lean`), and back.

```python
self = self.epsremove.renumber
S = self.dim
start = np.full(S, zero); arcs = {a: np.full((S, S), zero) for a in self.alphabet}; stop = np.full(S, zero)
for i, w in self.I: start[i] += w
for i, a, j, w in self.arcs(): arcs[a][i, j] += w
for i, w in self.F: stop[i] += w
assert EPSILON not in arcs
return Simple(start, arcs, stop)
```

* `self.epsremove` is the existing model `WFSA.epsremove A S out` (`Model/WfsaOps2.lean`; the closure matrix `S` of the ε
  graph and its adjacency `out` are parameters: whatever `E.closure()` returned);
* `renumber` (`rename(Integerizer())`) numbers the states in the order in which `rename` meets them (initial entries,
  final entries, arc ends); the model numbers them by their position in `WFSA.states` (the same enumeration, except that
  Python's `I` / `F` skip the entries of accumulated weight zero: a state that only occurs in such entries gets a row
  and column of zeros in the model and none in Python — the weights are the same);
* `self.alphabet` after `epsremove` is the set of the labels of the arcs that were added, never ε
  (`WFSA.labels`), so `assert EPSILON not in arcs` cannot fail;
* `+=` accumulates: `start[i]`, `stop[i]` are the accumulated weights (`wlook`), `arcs[a][i, j]` the sum of the weights
  of the arcs `i -a-> j` (`WFSA.arcW`);
* `dtype=float`: Python converts the weights to floating point; the model keeps them in `K` (exact arithmetic, as the
  Tzeng model).

No Mathlib. -/
namespace Genlm

section
variable {ι σ K : Type} [DecidableEq ι] [DecidableEq σ] [Add K] [Mul K] [Zero K] [One K]

/-- `arcs[a][i, j]`: the accumulated weight of the arcs `i -a-> j` -/
def WFSA.arcW (B : WFSA ι σ K) (i : ι) (a : σ) (j : ι) : K :=
  lsum ((B.arcs.filter fun e => e.src = i ∧ e.lbl = some a ∧ e.dst = j).map (·.w))

/-- the matrix form of an ε-free machine (the body of `WFSA.simple` after `self = self.epsremove.renumber`):
state number `n` is `B.states[n]` -/
def WFSA.toMAut (B : WFSA ι σ K) : MAut σ K where
  dim := B.states.length
  start := B.states.map fun i => wlook B.start i
  arcs := B.labels.map fun a => (a, B.states.map fun i => B.states.map fun j => B.arcW i a j)
  stop := B.states.map fun i => wlook B.stop i

/-- `WFSA.simple`, given the closure matrix `S` and its adjacency `out` used by `epsremove` -/
def WFSA.simple (A : WFSA ι σ K) (S : ι → ι → K) (out : ι → List ι) : MAut σ K :=
  (A.epsremove S out).toMAut

end

section
variable {σ K : Type} [Zero K]

/-- `Simple.to_wfsa`: states `0 … dim-1`; EVERY entry of the vectors and matrices becomes an initial weight, an arc or a
final weight (`add_I`, `add_arc`, `add_F` are called for all `i`, `j`, zeros included) -/
def MAut.toWfsa (M : MAut σ K) : WFSA Nat σ K where
  start := (List.range M.dim).map fun i => (i, M.start.getD i 0)
  stop := (List.range M.dim).map fun i => (i, M.stop.getD i 0)
  arcs := M.arcs.flatMap fun p => (List.range M.dim).flatMap fun i => (List.range M.dim).map fun j =>
    ⟨i, some p.1, j, (p.2.getD i []).getD j 0⟩

end

end Genlm
