import GenlmModel.Model.Json
/-! Operation dispatch of the driver: one JSON object in, one JSON object out. -/
namespace Genlm
open Lean (Json)

section
variable {K : Type} [Wt K] [BEq K]

/-- {"op":"wn","cfg":…,"n":N,"xs":[[…],…]} → {"vals":[…], "half":[…]} :
`WN G n S x` and `WN G (n/2) S x` for every string -/
def opWn (j : Json) : E Json := do
  let G : CFG Sx K ← cfgOfJson (← getField j "cfg")
  let n ← getNat (← getField j "n")
  let xs ← (← getArr (← getField j "xs")).mapM sxList
  let maxbits ← match j.getObjVal? "maxbits" with | .ok v => getNat v | _ => pure 4000
  let keys := tabKeys G xs
  -- first half, giving up (→ deep float run requested by the harness) when exact numbers explode
  let rec half (fuel : Nat) (t : Tab Sx K) : Option (Tab Sx K) :=
    match fuel with
    | 0 => some t
    | fuel + 1 =>
      let t' := tabStep G keys t
      if t'.any (fun e => Wt.bits e.2 > maxbits) then none else half fuel t'
  let some h := half (n / 2) [] | pure (Json.mkObj [("stable", .bool false), ("exploded", .bool true)])
  -- continue from the half-way table; stop early once the table is a fixed point
  let rec go (fuel : Nat) (t : Tab Sx K) (used : Nat) : Tab Sx K × Nat × Bool :=
    match fuel with
    | 0 => (t, used, false)
    | fuel + 1 =>
      let t' := tabStep G keys t
      if (t'.map (·.2)) == (t.map (·.2)) && t'.length == t.length then (t, used, true)
      else if t'.any (fun e => Wt.bits e.2 > maxbits) then (t, used, false)
      else go fuel t' (used + 1)
  let (t, used, stable) := go (n - n / 2) h (n / 2)
  pure (Json.mkObj [("vals", .arr (xs.map fun x => Wt.toJson (t.get G.S x)).toArray),
                    ("half", .arr (xs.map fun x => Wt.toJson (h.get G.S x)).toArray),
                    ("n", .num ⟨used, 0⟩), ("stable", .bool stable), ("keys", .num ⟨keys.length, 0⟩)])

def runOpK (op : String) (j : Json) : E Json :=
  match op with
  | "wn" => opWn (K := K) j
  | _ => throw s!"unknown op {op}"
end

def runOp (j : Json) : E Json := do
  let op ← getStr (← getField j "op")
  let R ← match j.getObjVal? "R" with | .ok (.str r) => pure r | _ => pure "Float"
  match R with
  | "Float" | "Real" => runOpK (K := Rat) op j
  | "F64" => runOpK (K := Float) op j
  | "Boolean" => runOpK (K := BoolW) op j
  | "MaxTimes" => runOpK (K := MaxT) op j
  | _ => throw s!"unknown semiring {R}"

end Genlm
