import GenlmModel.Model.Json
import GenlmModel.Model.Transform
import GenlmModel.Model.Shape
import GenlmModel.Model.Norm
import GenlmModel.Model.Mask
import GenlmModel.Model.WfsaOps
import GenlmModel.Model.WfsaOps2
import GenlmModel.Model.Det
import GenlmModel.Model.FstOps
import GenlmModel.Model.PrefixT
import GenlmModel.Model.IncCky
import GenlmModel.Model.UCycle
import GenlmModel.Model.FsmWfsa
import GenlmModel.Model.Earley
import GenlmModel.Model.Compose
import GenlmModel.Model.Cert
import GenlmModel.Model.Tzeng
import GenlmModel.Model.Linear
import GenlmModel.Model.Tarjan
import GenlmModel.Generated.Semiring
/-! Operation dispatch of the driver: one JSON object in, one JSON object out. -/
namespace Genlm
open Lean (Json)

/-- a start symbol that no Python grammar of the harness uses -/
def genNt0 (pre : String) : Sx := .s (pre ++ "@model")

section
variable {K : Type} [Wt K] [BEq K]

/-- {"op":"wn","cfg":…,"n":N,"xs":[[…],…]} → {"vals":[…], "half":[…]} :
`WN G n S x` and `WN G (n/2) S x` for every string -/
def opWn (j : Json) : E Json := do
  let G : CFG Sx K ← cfgOfJson (← getField j "cfg")
  let n ← getNat (← getField j "n")
  let xs ← (← getArr (← getField j "xs")).mapM sxList
  let maxbits ← match j.getObjVal? "maxbits" with | .ok v => getNat v | _ => pure 4000
  let keys := tabKeys G xs
  -- first half, giving up (→ deep float run requested by the harness) when exact numbers explode
  let rec half (fuel : Nat) (t : Tab Sx K) : Option (Tab Sx K) :=
    match fuel with
    | 0 => some t
    | fuel + 1 =>
      let t' := tabStepFast G keys t
      if t'.any (fun e => Wt.bits e.2 > maxbits) then none else half fuel t'
  let some h := half (n / 2) [] | pure (Json.mkObj [("stable", .bool false), ("exploded", .bool true)])
  -- continue from the half-way table; stop early once the table is a fixed point
  let rec go (fuel : Nat) (t : Tab Sx K) (used : Nat) : Tab Sx K × Nat × Bool :=
    match fuel with
    | 0 => (t, used, false)
    | fuel + 1 =>
      let t' := tabStepFast G keys t
      if (t'.map (·.2)) == (t.map (·.2)) && t'.length == t.length then (t, used, true)
      else if t'.any (fun e => Wt.bits e.2 > maxbits) then (t, used, false)
      else go fuel t' (used + 1)
  let (t, used, stable) := go (n - n / 2) h (n / 2)
  pure (Json.mkObj [("vals", .arr (xs.map fun x => Wt.toJson (t.get G.S x)).toArray),
                    ("half", .arr (xs.map fun x => Wt.toJson (h.get G.S x)).toArray),
                    ("n", .num ⟨used, 0⟩), ("stable", .bool stable), ("keys", .num ⟨keys.length, 0⟩)])

/-- {"op":"zn","cfg":…,"n":N} → total weights `ZN G n X` of every head (and at n/2), early stop when stationary -/
def opZnG (G : CFG Sx K) (j : Json) : E Json := do
  let n ← getNat (← getField j "n")
  let maxbits ← match j.getObjVal? "maxbits" with | .ok v => getNat v | _ => pure 4000
  let rec half (fuel : Nat) (t : List (Sx × K)) : Option (List (Sx × K)) :=
    match fuel with
    | 0 => some t
    | fuel + 1 =>
      let t' := znStep G t
      if t'.any (fun e => Wt.bits e.2 > maxbits) then none else half fuel t'
  let some h := half (n / 2) [] | pure (Json.mkObj [("stable", .bool false), ("exploded", .bool true)])
  let rec go (fuel : Nat) (t : List (Sx × K)) (used : Nat) : List (Sx × K) × Nat × Bool :=
    match fuel with
    | 0 => (t, used, false)
    | fuel + 1 =>
      let t' := znStep G t
      if (t'.map (·.2)) == (t.map (·.2)) && t'.length == t.length then (t, used, true)
      else if t'.any (fun e => Wt.bits e.2 > maxbits) then (t, used, false)
      else go fuel t' (used + 1)
  let (t, used, stable) := go (n - n / 2) h (n / 2)
  let enc (z : List (Sx × K)) : Json := .arr (z.map fun e => Json.arr #[sxToJson e.1, Wt.toJson e.2]).toArray
  pure (Json.mkObj [("vals", enc t), ("half", enc h), ("n", .num ⟨used, 0⟩), ("stable", .bool stable)])

/-- {"op":"mask","cfg":G,"eos":e,"ctxs":[…]} → for every context the next-token set of `addEOS G`
(`nextSet`, proved: exactly the tokens t with ctx++[t] a viable prefix) and whether ctx is a sentence of it -/
def opMask (j : Json) : E Json := do
  let G : CFG Sx K ← cfgOfJson (← getField j "cfg")
  let ctxs ← (← getArr (← getField j "ctxs")).mapM sxList
  let G' : CFG Sx K ← match j.getObjVal? "eos" with
    | .ok e => do
        let eos ← sxOfJson e
        pure { (addEOS G (genNt0 "<START>") eos) with V := G.V ++ [eos] }
    | _ => pure G
  pure (Json.mkObj [("masks", .arr (ctxs.map fun c => Json.arr ((nextSet G' c).map sxToJson).toArray).toArray),
                    ("viable", .arr (ctxs.map fun c => Json.bool (viable G' c)).toArray),
                    ("sentence", .arr (ctxs.map fun c => Json.bool (derivesB G' c)).toArray)])

/-- {"op":"pn","wfsa":…,"n":N,"xs":[…]} → `PN A n x` and `PN A (n/2) x` (accepting paths with ≤ n arcs) -/
def opPn (j : Json) : E Json := do
  let A : WFSA Sx Sx K ← wfsaOfJson (← getField j "wfsa")
  let n ← getNat (← getField j "n")
  let xs ← (← getArr (← getField j "xs")).mapM sxList
  pure (Json.mkObj [("vals", .arr (xs.map fun x => Wt.toJson (PNtab A n x)).toArray),
                    ("half", .arr (xs.map fun x => Wt.toJson (PNtab A (n / 2) x)).toArray)])

/-- {"op":"tpn","fst":…,"n":N,"pairs":[[x,y]…]} → `TPN T n x y` and `TPN T (n/2) x y` -/
def opTpn (j : Json) : E Json := do
  let T : FST Sx Sx K ← fstOfJson (← getField j "fst")
  let n ← getNat (← getField j "n")
  let ps ← (← getArr (← getField j "pairs")).mapM fun e => do
    match ← getArr e with
    | [x, y] => pure ((← sxList x), (← sxList y))
    | _ => throw "bad pair"
  pure (Json.mkObj [("vals", .arr (ps.map fun p => Wt.toJson (TPNtab T n p.1 p.2)).toArray),
                    ("half", .arr (ps.map fun p => Wt.toJson (TPNtab T (n / 2) p.1 p.2)).toArray)])

def pairStateTag : PairState → Sx
  | .inl n => .i n
  | .inr (i, k) => Sx.tup [.i i, .i k]

/-- {"op":"fst_op","name":…,"f":fst,"g":fst,…} → mirror models of fst.py -/
def opFstOp (j : Json) : E Json := do
  let name ← getStr (← getField j "name")
  match name with
  | "prefix_transducer" => do
      let V ← sxList (← getField j "V")
      let T : FST Nat Sx K := prefixT V
      pure (fstToJson ⟨T.start.map fun s => (Sx.i s.1, s.2), T.stop.map fun s => (Sx.i s.1, s.2),
        T.arcs.map fun e => ⟨Sx.i e.src, e.inp, e.out, Sx.i e.dst, e.w⟩⟩)
  | "from_pairs" => do
      let ps ← (← getArr (← getField j "pairs")).mapM fun e => do
        match ← getArr e with
        | [x, y] => pure ((← sxList x), (← sxList y))
        | _ => throw "bad pair"
      let T : FST PairState Sx K := FST.fromPairs ps
      pure (fstToJson ⟨T.start.map fun s => (pairStateTag s.1, s.2), T.stop.map fun s => (pairStateTag s.1, s.2),
        T.arcs.map fun e => ⟨pairStateTag e.src, e.inp, e.out, pairStateTag e.dst, e.w⟩⟩)
  | _ => do
  let F : FST Sx Sx K ← fstOfJson (← getField j "f")
  match name with
  | "transpose" => pure (fstToJson F.transpose)
  | "project0" => pure (wfsaToJson (F.project false))
  | "project1" => pure (wfsaToJson (F.project true))
  | "composeL" => do
      let G : FST Sx Sx K ← fstOfJson (← getField j "g")
      let C := F.compose G
      let tag : (Sx × Nat) × Sx → Sx := fun s => Sx.tup [Sx.tup [s.1.1, .i s.1.2], s.2]
      pure (fstToJson ⟨C.start.map fun s => (tag s.1, s.2), C.stop.map fun s => (tag s.1, s.2),
        C.arcs.map fun e => ⟨tag e.src, e.inp, e.out, tag e.dst, e.w⟩⟩)
  | "composeR" => do
      let G : FST Sx Sx K ← fstOfJson (← getField j "g")
      let C := F.compose' G
      let tag : Sx × (Nat × Sx) → Sx := fun s => Sx.tup [s.1, Sx.tup [.i s.2.1, s.2.2]]
      pure (fstToJson ⟨C.start.map fun s => (tag s.1, s.2), C.stop.map fun s => (tag s.1, s.2),
        C.arcs.map fun e => ⟨tag e.src, e.inp, e.out, tag e.dst, e.w⟩⟩)
  | _ => throw s!"unknown fst op {name}"

def sumTag : Sx ⊕ Sx → Sx
  | .inl i => Sx.tup [.i 0, i]
  | .inr i => Sx.tup [.i 1, i]

/-- {"op":"wfsa_op","name":…,"a":…,"b":…} → mirror models of the rational operations (base.py) -/
def opWfsaOp (j : Json) : E Json := do
  let name ← getStr (← getField j "name")
  let A : WFSA Sx Sx K ← wfsaOfJson (← getField j "a")
  match name with
  | "reverse" => pure (wfsaToJson A.reverse)
  | "kleene_plus" => pure (wfsaToJson A.kleenePlus)
  | "union" => do
      let B : WFSA Sx Sx K ← wfsaOfJson (← getField j "b")
      pure (wfsaToJson ((A.union B).mapStates sumTag))
  | "concat" => do
      let B : WFSA Sx Sx K ← wfsaOfJson (← getField j "b")
      pure (wfsaToJson ((A.concat B).mapStates sumTag))
  | _ => throw s!"unknown wfsa op {name}"

def vecOfJson (j : Json) : E (List K) := do (← getArr j).mapM Wt.ofJson
def matOfJson (j : Json) : E (List (List K)) := do (← getArr j).mapM (vecOfJson (K := K))

/-- maut = {"dim":d,"start":[…],"arcs":[[sym,[[…]…]]…],"stop":[…]} -/
def mautOfJson (j : Json) : E (MAut Sx K) := do
  let dim ← getNat (← getField j "dim")
  let start ← vecOfJson (K := K) (← getField j "start")
  let stop ← vecOfJson (K := K) (← getField j "stop")
  let arcs ← (← getArr (← getField j "arcs")).mapM fun e => do
    match ← getArr e with
    | [a, m] => pure ((← sxOfJson a), (← matOfJson (K := K) m))
    | _ => throw "bad maut arc"
  pure ⟨dim, start, arcs, stop⟩

variable [DecidableEq K] [Neg K] in
/-- {"op":"cert","a":maut,"b":maut,"cert":{"U":…,"cStop":…,"cArc":[[sym,[[…]]]…]} | "word":[…] , "rank":{"us","vs","inv"}}
→ verdicts of the verified checkers -/
def opCert (j : Json) : E Json := do
  let A : MAut Sx K ← mautOfJson (← getField j "a")
  let mut out : List (String × Json) := [("a_wf", .bool A.wf)]
  match j.getObjVal? "b" with
  | .ok jb =>
    let B : MAut Sx K ← mautOfJson jb
    out := out ++ [("b_wf", .bool B.wf)]
    match j.getObjVal? "cert" with
    | .ok jc =>
      let U ← matOfJson (K := K) (← getField jc "U")
      let cStop ← vecOfJson (K := K) (← getField jc "cStop")
      let cArc ← (← getArr (← getField jc "cArc")).mapM fun e => do
        match ← getArr e with
        | [a, m] => pure ((← sxOfJson a), (← matOfJson (K := K) m))
        | _ => throw "bad cArc"
      out := out ++ [("equiv_cert_ok", .bool (equivCertCheck A B ⟨U, cStop, cArc⟩))]
    | _ => pure ()
    match j.getObjVal? "words" with
    | .ok jw =>
      let ws ← (← getArr jw).mapM sxList
      out := out ++ [("wa", .arr (ws.map fun w => Wt.toJson (A.weight w)).toArray),
                     ("wb", .arr (ws.map fun w => Wt.toJson (B.weight w)).toArray)]
    | _ => pure ()
  | _ => pure ()
  match j.getObjVal? "rank" with
  | .ok jr =>
    let us ← (← getArr (← getField jr "us")).mapM sxList
    let vs ← (← getArr (← getField jr "vs")).mapM sxList
    let inv ← matOfJson (K := K) (← getField jr "inv")
    out := out ++ [("rank_lower_ok", .bool (rankLowerCheck A us vs inv)), ("rank_lower", .num ⟨us.length, 0⟩)]
  | _ => pure ()
  pure (Json.mkObj out)

/-- {"op":"inccky","cfg":CNF grammar,"prefix":[…]} → the columns of the incremental CKY chart of the prefix
(entries [i, X, w]), the un-normalised next-token weights and the string weight — mirror model of cky.py -/
def opIncCky (j : Json) : E Json := do
  let G : CFG Sx K ← cfgOfJson (← getField j "cfg")
  let p ← sxList (← getField j "prefix")
  let ch := ckyChart G p
  let colJ (c : CkyCol Sx K) : Json := .arr (c.map fun e => Json.arr #[.num ⟨e.1.1, 0⟩, sxToJson e.1.2, Wt.toJson e.2]).toArray
  pure (Json.mkObj [("chart", .arr (ch.map colJ).toArray), ("call", Wt.toJson (incCkyCall G p)),
    ("p_next", pairsToJson (incCkyPNext G p)), ("parse", Wt.toJson (cfgParse G p))])

/-- {"op":"earley","cfg":preprocessed grammar,"order":[[X,n]…],"x":[…]} → the Earley chart columns (complete and
incomplete items with their values), the string weight and the un-normalised next-token weights — mirror model of earley.py -/
def opEarley (j : Json) : E Json := do
  let G : CFG Sx K ← cfgOfJson (← getField j "cfg")
  let x ← sxList (← getField j "x")
  let ordL ← (← getArr (← getField j "order")).mapM fun e => do
    match ← getArr e with
    | [a, n] => pure ((← sxOfJson a), (← getNat n))
    | _ => throw "bad order entry"
  let order : Sx → Nat := fun X => match ordL.find? (fun e => e.1 = X) with | some e => e.2 | none => 0
  let cols := earleyChart G order x
  let colJ (c : ECol Sx K) : Json := Json.mkObj [
    ("k", .num ⟨c.k, 0⟩),
    ("c", .arr (c.c_chart.map fun e => Json.arr #[.num ⟨e.1.1, 0⟩, sxToJson e.1.2, Wt.toJson e.2]).toArray),
    ("i", .arr (c.i_chart.map fun e => Json.arr #[.num ⟨e.1.1, 0⟩, sxToJson e.1.2.1, .arr (e.1.2.2.map sxToJson).toArray, Wt.toJson e.2]).toArray)]
  pure (Json.mkObj [("cols", .arr (cols.map colJ).toArray), ("call", Wt.toJson (earleyCall G order x)),
    ("p_next", pairsToJson (earleyPNext G order x))])

def cxToSx (S : Sx) : CX Sx → Sx
  | .sym s => s
  | .eps => Sx.eps
  | .other => Sx.tag "Other" [S]

def csymToSx (S : Sx) : CSym Sx Sx → Sx
  | .term b => b
  | .item i x j => Sx.tup [i, cxToSx S x, j]
  | .start => S

variable [DecidableEq K] in
/-- {"op":"compose_cfg","cfg":…,"fst":…} → the grammar `cfg @ fst` of the mirror model (weighted Bar-Hillel with ε handling) -/
def opComposeCfg (j : Json) : E Json := do
  let G : CFG Sx K ← cfgOfJson (← getField j "cfg")
  let T : FST Sx Sx K ← fstOfJson (← getField j "fst")
  let C := composeShared G T
  let f := csymToSx G.S
  let G' : CFG Sx K := ⟨f C.S, C.V.map f, C.rules.map fun r => ⟨r.w, f r.head, r.body.map f⟩⟩
  pure (cfgToJson G')

def opZn (j : Json) : E Json := do
  let G : CFG Sx K ← cfgOfJson (← getField j "cfg")
  opZnG G j

/-- Python `str(x)` for the names the library formats into `_gen_nt` prefixes -/
def pyStr : Sx → String
  | .s v => v
  | .i v => toString v
  | _ => "?"

def genNt (pre : String) (i : Nat) : Sx := .s (pre ++ "@" ++ toString i)

def optNat (j : Json) (k : String) (d : Nat) : E Nat :=
  match j.getObjVal? k with | .ok v => getNat v | _ => pure d

/-- [[sym, w], …] → total function, default 0 -/
def fun1OfJson (j : Json) : E (Sx → K) := do
  let l ← (← getArr j).mapM fun e => do
    match ← getArr e with
    | [a, w] => pure ((← sxOfJson a), (← Wt.ofJson w : K))
    | _ => throw "bad pair"
  pure fun x => match l.find? (fun e => e.1 = x) with | some e => e.2 | none => 0

/-- [[a, b, w], …] → total function of two arguments, default 0 -/
def fun2OfJson (j : Json) : E (Sx → Sx → K) := do
  let l ← (← getArr j).mapM fun e => do
    match ← getArr e with
    | [a, b, w] => pure (((← sxOfJson a), (← sxOfJson b)), (← Wt.ofJson w : K))
    | _ => throw "bad triple"
  pure fun x y => match l.find? (fun e => e.1 = (x, y)) with | some e => e.2 | none => 0

def triplesOfJson (j : Json) : E (List ((Sx × Sx) × K)) := do
  (← getArr j).mapM fun e => do
    match ← getArr e with
    | [a, b, w] => pure (((← sxOfJson a), (← sxOfJson b)), (← Wt.ofJson w))
    | _ => throw "bad triple"

def triplesToJson (l : List ((Sx × Sx) × K)) : Json :=
  .arr (l.map fun e => Json.arr #[sxToJson e.1.1, sxToJson e.1.2, Wt.toJson e.2]).toArray

variable [DecidableEq K] [HasStar K] in
/-- {"op":"linear","nodes":[…],"edges":[[i,j,w]…],"blocks":[[…]…],"b":[[node,w]…]} →
verified SCC check of the blocks, and the mirror models of closure_scc_based / closure_reference /
solve_left / solve_right run on those blocks -/
def opLinear (j : Json) : E Json := do
  let nodes ← sxList (← getField j "nodes")
  let edges ← triplesOfJson (K := K) (← getField j "edges")
  let blocks ← (← getArr (← getField j "blocks")).mapM sxList
  let b ← fun1OfJson (K := K) (← getField j "b")
  let g : WGraph Sx K := ⟨nodes, edges⟩
  let star : K → K := fun x => match HasStar.star x with | some y => y | none => 0
  let divergent := blocks.any fun N => (lehmannPivots g star N).any fun a => (HasStar.star a).isNone
  let bl := mkBlocks g star blocks
  pure (Json.mkObj [("scc_ok", .bool (sccCheck g g.arcs blocks)), ("divergent", .bool divergent),
    ("closure_scc", triplesToJson (closureScc g bl)), ("closure_ref", triplesToJson (closureRef g star)),
    ("solve_left", pairsToJson (solveLeft g bl b)), ("solve_right", pairsToJson (solveRight g bl b))])

def bstateTag : BState Sx Sx → Sx
  | .inl i => i
  | .inr (i, a, j, n) => Sx.tup [.s "_bytes", i, a, j, .i n]

def utf8b : Sx → List Sx
  | .s v => v.toUTF8.toList.map fun b => Sx.i b.toNat
  | x => [x]

/-- a weighted subset (Python: `frozendict {q: w}`) as the list of its `[state, weight]` pairs, in the model's order
(the harness sorts: a `frozendict` has no order) -/
def subsetToJson (Q : List (Sx × K)) : Json := pairsToJson Q

/-- the outcome of `determinizeRun`: {"outcome":"done","start":[[Q,w]…],"stop":[[Q,w]…],"arcs":[[P,a,Q,w]…]} with the power
states `P`, `Q` encoded by `subsetToJson`, or {"outcome":"outOfFuel"} / {"outcome":"zeroDiv"} -/
def detOutcomeToJson : DetOutcome (WFSA (List (Sx × K)) Sx K) → Json
  | .outOfFuel => Json.mkObj [("outcome", "outOfFuel")]
  | .zeroDiv => Json.mkObj [("outcome", "zeroDiv")]
  | .done D =>
    let pj (l : List (List (Sx × K) × K)) : Json :=
      .arr (l.map fun e => Json.arr #[subsetToJson e.1, Wt.toJson e.2]).toArray
    Json.mkObj [("outcome", "done"), ("start", pj D.start), ("stop", pj D.stop),
      ("arcs", .arr (D.arcs.map fun e =>
        Json.arr #[subsetToJson e.src, labelToJson e.lbl, subsetToJson e.dst, Wt.toJson e.w]).toArray)]

variable [DecidableEq K] [HasInv K] in
/-- {"op":"wfsa_op2","name":…,"a":wfsa,…} → mirror models of push / trim / trim_vals / epsremove / to_cfg / to_bytes /
determinize (the subset construction of `Model/Det.lean` on the machine `a`, at most `fuel` pops of the work list) -/
def opWfsaOp2 (j : Json) : E Json := do
  let name ← getStr (← getField j "name")
  let A : WFSA Sx Sx K ← wfsaOfJson (← getField j "a")
  let inv : K → K := fun x => match HasInv.inv x with | some y => y | none => 0
  match name with
  | "push" => do
      let V ← fun1OfJson (K := K) (← getField j "V")
      pure (wfsaToJson (A.push inv V))
  | "trim" => pure (wfsaToJson A.trim)
  | "determinize" => do
      let fuel ← optNat j "fuel" 1000
      pure (detOutcomeToJson (determinizeRun inv A fuel))
  | "trim_vals" => do
      let f ← fun1OfJson (K := K) (← getField j "fwd")
      let b ← fun1OfJson (K := K) (← getField j "bwd")
      pure (wfsaToJson (A.trimVals f b))
  | "epsremove" => do
      let S ← fun2OfJson (K := K) (← getField j "S")
      let outL ← (← getArr (← getField j "out")).mapM fun e => do
        match ← getArr e with
        | [a, l] => pure ((← sxOfJson a), (← sxList l))
        | _ => throw "bad out"
      let out : Sx → List Sx := fun i => match outL.find? (fun e => e.1 = i) with | some e => e.2 | none => []
      pure (wfsaToJson (A.epsremove S out))
  | "to_cfg_right" => do
      let S ← sxOfJson (← getField j "S")
      pure (cfgToJson (A.toCfgRight S))
  | "to_cfg_left" => do
      let S ← sxOfJson (← getField j "S")
      pure (cfgToJson (A.toCfgLeft S))
  | "to_bytes" => pure (wfsaToJson ((A.toBytes utf8b).mapStates bstateTag))
  | _ => throw s!"unknown wfsa op2 {name}"

def utf8 : Sx → List Sx
  | .s v => v.toUTF8.toList.map fun b => Sx.i b.toNat
  | x => [x]

def cfgOut (G : CFG Sx K) (ctr : Nat) : Json :=
  Json.mkObj [("cfg", cfgToJson G), ("ctr", .num ⟨ctr, 0⟩)]

/-- the name `(x, "bot")` that `unarycycleremove` gives the copy of a cyclic nonterminal -/
def ucBotName (x : Sx) : Sx := Sx.tup [x, .s "bot"]

/-- [[[node…], [[j,k,w]…]], …] → `WeightedGraph.Blocks` as the real code computed them -/
def blocksOfJson (j : Json) : E (List (Block Sx K)) := do
  (← getArr j).mapM fun e => do
    match ← getArr e with
    | [ns, clo] => pure ⟨← sxList ns, ← triplesOfJson (K := K) clo⟩
    | _ => throw "bad block"

def optBool (j : Json) (k : String) : Bool :=
  match j.getObjVal? k with | .ok (.bool b) => b | _ => false

variable [DecidableEq K] [HasInv K] [HasStar K] in
/-- {"op":"transform","name":…,"cfg":…,"ctr":k,…} → {"cfg":…,"ctr":k'} — mirror models of cfg.py -/
def opTransform (j : Json) : E Json := do
  let G : CFG Sx K ← cfgOfJson (← getField j "cfg")
  let name ← getStr (← getField j "name")
  let ctr ← optNat j "ctr" 0
  match name with
  | "separate_start" => pure (cfgOut (separateStart G (genNt (pyStr G.S) (ctr + 1))) (if G.S ∈ bodySyms G then ctr + 1 else ctr))
  | "separate_terminals" => let (G', c) := separateTerminals (genNt "") G ctr; pure (cfgOut G' c)
  | "binarize" => let (G', c) := binarize (genNt "") G ctr; pure (cfgOut G' c)
  | "push_null" => do
      let nw ← fun1OfJson (K := K) (← getField j "null_weight")
      pure (cfgOut (pushNull nw (fun x => Sx.tag "NotNull" [x]) G) ctr)
  | "unaryremove" => do
      let W ← fun2OfJson (K := K) (← getField j "W")
      pure (cfgOut (unaryRemove W G) ctr)
  | "unarycycleremove" => do
      -- `A = G[·,·]` and `blocks = G.Blocks` as observed in the real call; "trim": the `trim=True` path
      let A ← fun2OfJson (K := K) (← getField j "A")
      let blocks ← blocksOfJson (K := K) (← getField j "blocks")
      let G' := unaryCycleRemove A blocks ucBotName G
      pure (cfgOut (if optBool j "trim" then trim G' else G') ctr)
  | "unarycycleremove_full" => do
      -- only the ORDER of the blocks (and of the nodes inside a block) is taken from the real code; the graph
      -- `_unary_graph()`, the check that `bl` is its SCC decomposition sources first, the closures `_closure`
      -- and the rules are the model's: the instantiation of `ucycle_no_unary_cycle_graph`
      let bl ← (← getArr (← getField j "bl")).mapM sxList
      let g := unaryGraph G
      let star : K → K := fun x => match HasStar.star x with | some y => y | none => 0
      let divergent := bl.any fun N => (lehmannPivots g star N).any fun a => (HasStar.star a).isNone
      let G' := unaryCycleRemove g.E (mkBlocks g star bl) ucBotName G
      pure (Json.mkObj [("cfg", cfgToJson (if optBool j "trim" then trim G' else G')), ("ctr", .num ⟨ctr, 0⟩),
        ("nodes", .arr (g.nodes.map sxToJson).toArray), ("edges", triplesToJson ((linDedup g.arcs).map fun k => (k, wlook g.edges k))),
        ("scc_ok", .bool (sccCheck g g.arcs bl)), ("scc_rules_ok", .bool (sccCheck g (unaryEdges G) bl)),
        ("divergent", .bool divergent), ("arcs_complete", .bool (unaryArcsComplete G)),
        ("has_unary_cycle", .bool (hasUnaryCycle bl G)), ("no_unary_cycle", .bool (noUnaryCycle G)),
        ("out_no_unary_cycle", .bool (noUnaryCycle G'))])
  | "unfold" => do
      let i ← getNat (← getField j "i")
      let k ← getNat (← getField j "k")
      match unfoldRule G i k with
      | some G' => pure (cfgOut G' ctr)
      | none => pure (Json.mkObj [("exc", "Assertion")])
  | "trim" => pure (cfgOut (trim G) ctr)
  | "cotrim" => pure (cfgOut (cotrim G) ctr)
  | "derivative" => do
      let a ← sxOfJson (← getField j "a")
      let i ← optNat j "i" 0
      let U ← fun1OfJson (K := K) (← getField j "U")
      pure (cfgOut (derivative (fun x => Sx.tag "Slash" [x, a, .i i]) U a G) ctr)
  | "to_bytes" => pure (cfgOut (cfgToBytes utf8 G) ctr)
  | "add_eos" => do
      let eos ← sxOfJson (← getField j "eos")
      pure (cfgOut { (addEOS G (genNt "<START>" (ctr + 1)) eos) with V := G.V ++ [eos] } (ctr + 1))
  | "locally_normalize" => do
      let Z ← fun1OfJson (K := K) (← getField j "Z")
      pure (cfgOut (locallyNormalizeDrop (fun x => match HasInv.inv x with | some y => y | none => 0) G Z) ctr)
  | "sep_start_unconditional" => pure (cfgOut (sepStart G (genNt (pyStr G.S) (ctr + 1))) (ctr + 1))
  | _ => throw s!"unknown transformation {name}"

variable [DecidableEq K] in
/-- {"op":"shape","cfg":…,"orig":…} → the C07 predicates on `cfg` -/
def opShape (j : Json) : E Json := do
  let G : CFG Sx K ← cfgOfJson (← getField j "cfg")
  let og : Option (CFG Sx K) ← match j.getObjVal? "orig" with
    | .ok v => do pure (some (← cfgOfJson v))
    | _ => pure none
  let b (x : Bool) : Json := .bool x
  pure (Json.mkObj [("in_cnf", b (inCNFb G)), ("start_off_rhs", b (startOffRhs G)),
    ("no_nullary_except_start", b (noNullaryExceptStart G)), ("no_unary", b (noUnary G)),
    ("arity_le_2", b (arityLe2 G)), ("terminals_separated", b (terminalsSeparated G)),
    ("no_unary_cycle", b (noUnaryCycle G)), ("trim_useful", b (trimUseful G)),
    ("orig_start_generating", b (match og with | some o => decide (o.S ∈ generating o) | none => true))])

variable [DecidableEq K] in
/-- {"op":"ucycle_pred","cfg":…,"bl":[[…]…]} → `has_unary_cycle` of the mirror model on the blocks `bl` the real
`_unary_graph().blocks` returned, the model-side predicate `noUnaryCycle`, and whether `bl` passes the verified
SCC check for the model's `_unary_graph` -/
def opUcyclePred (j : Json) : E Json := do
  let G : CFG Sx K ← cfgOfJson (← getField j "cfg")
  let bl ← (← getArr (← getField j "bl")).mapM sxList
  let g := unaryGraph G
  pure (Json.mkObj [("has_unary_cycle", .bool (hasUnaryCycle bl G)), ("no_unary_cycle", .bool (noUnaryCycle G)),
    ("scc_ok", .bool (sccCheck g g.arcs bl)), ("scc_rules_ok", .bool (sccCheck g (unaryEdges G) bl)),
    ("arcs_complete", .bool (unaryArcsComplete G))])

def mautToJson (A : MAut Sx K) : Json :=
  let vj (v : List K) : Json := .arr (v.map Wt.toJson).toArray
  Json.mkObj [("dim", .num ⟨A.dim, 0⟩), ("start", vj A.start), ("stop", vj A.stop),
    ("arcs", .arr (A.arcs.map fun p => Json.arr #[sxToJson p.1, .arr (p.2.map vj).toArray]).toArray)]

variable [DecidableEq K] [Sub K] [Div K] in
/-- {"op":"tzeng_equiv","a":maut,"b":maut,"alphabet":[sym…]?,"fuel":n?,"words":[[…]…]?} → the VERIFIED model of
`Simple.counterexample` (`tzSearch`, `Model/Tzeng.lean`) run with the alphabet iterated in the given order (default
`A.diffSyms B`, i.e. `counterexampleQ`) and at most `fuel` pops of the work list (default `A.dim + B.dim`, always
enough: `tzSearch_terminates`):
{"outcome":"none"} (equivalent: `tzSearch_equiv_sound`, needs `a_wf`, `b_wf`, `alphabet_complete`) |
{"outcome":"some","word":[…],"va":…,"vb":…} (`tzSearch_sound`: the weights of that word, and they differ) |
{"outcome":"out_of_fuel"}; plus the exact weights `wa`, `wb` of the listed words (`MAut.weight`) -/
def opTzengEquiv (j : Json) : E Json := do
  let A : MAut Sx K ← mautOfJson (← getField j "a")
  let B : MAut Sx K ← mautOfJson (← getField j "b")
  let al : List Sx ← match j.getObjVal? "alphabet" with
    | .ok v => sxList v
    | _ => pure (A.diffSyms B)
  let fuel ← optNat j "fuel" (A.dim + B.dim)
  let complete : Bool := (A.diffSyms B).all fun a => al.contains a
  let res : List (String × Json) := match tzSearch al A B fuel with
    | none => [("outcome", Json.str "out_of_fuel")]
    | some none => [("outcome", Json.str "none")]
    | some (some (w, va, vb)) =>
      [("outcome", Json.str "some"), ("word", Json.arr (w.map sxToJson).toArray),
       ("va", Wt.toJson va), ("vb", Wt.toJson vb)]
  let ws : List (List Sx) ← match j.getObjVal? "words" with
    | .ok jw => do (← getArr jw).mapM sxList
    | _ => pure []
  let head : List (String × Json) := [("a_wf", Json.bool A.wf), ("b_wf", Json.bool B.wf),
    ("alphabet_complete", Json.bool complete), ("alphabet", Json.arr (al.map sxToJson).toArray),
    ("fuel", Json.num ⟨fuel, 0⟩), ("fuel_sufficient", Json.bool (decide (A.dim + B.dim ≤ fuel)))]
  let tail : List (String × Json) := [("wa", Json.arr (ws.map fun w => Wt.toJson (A.weight w)).toArray),
    ("wb", Json.arr (ws.map fun w => Wt.toJson (B.weight w)).toArray)]
  pure (Json.mkObj (head ++ res ++ tail))

variable [DecidableEq K] [Sub K] [Div K] in
/-- {"op":"tzeng_min","a":maut,"fuel":n?,"words":[[…]…]?,"full":bool?} → the VERIFIED model of `Simple.min`
(`minQ`; the matrices are visited in the order of `a.arcs`, the order of the Python dict): {"outcome":"done",
"dim":d (= Hankel rank = minimum, `minQ_spec`),"fwd_dim":…,"min_weights":[…] (weights of the minimal automaton
on the words),"wa":[…] (weights of `a`), and with "full" the automaton itself "min" and the rows "fwd_basis" of
`forward_basis`} or {"outcome":"out_of_fuel"} (impossible for fuel ≥ dim: `minQ_terminates`; default fuel = dim) -/
def opTzengMin (j : Json) : E Json := do
  let A : MAut Sx K ← mautOfJson (← getField j "a")
  let fuel ← optNat j "fuel" A.dim
  let ws : List (List Sx) ← match j.getObjVal? "words" with
    | .ok jw => do (← getArr jw).mapM sxList
    | _ => pure []
  let full : Bool := optBool j "full"
  let vj (v : List K) : Json := Json.arr (v.map Wt.toJson).toArray
  let head : List (String × Json) := [("a_wf", Json.bool A.wf), ("fuel", Json.num ⟨fuel, 0⟩),
    ("fuel_sufficient", Json.bool (decide (A.dim ≤ fuel))),
    ("wa", Json.arr (ws.map fun w => Wt.toJson (A.weight w)).toArray)]
  match minQ A fuel with
  | none => pure (Json.mkObj (head ++ [("outcome", Json.str "out_of_fuel")]))
  | some M =>
    let fb : List (List K) := (forwardBasisQ A fuel).getD []
    let body : List (String × Json) := [("outcome", Json.str "done"), ("dim", Json.num ⟨M.dim, 0⟩),
      ("min_wf", Json.bool M.wf), ("fwd_dim", Json.num ⟨fb.length, 0⟩),
      ("min_weights", Json.arr (ws.map fun w => Wt.toJson (M.weight w)).toArray)]
    let extra : List (String × Json) :=
      if full = true then [("min", mautToJson M), ("fwd_basis", Json.arr (fb.map vj).toArray)] else []
    pure (Json.mkObj (head ++ body ++ extra))

def runOpK [DecidableEq K] [HasInv K] [HasStar K] (op : String) (j : Json) : E Json :=
  match op with
  | "linear" => opLinear (K := K) j
  | "zn" => opZn (K := K) j
  | "mask" => opMask (K := K) j
  | "inccky" => opIncCky (K := K) j
  | "earley" => opEarley (K := K) j
  | "compose_cfg" => opComposeCfg (K := K) j
  | "pn" => opPn (K := K) j
  | "tpn" => opTpn (K := K) j
  | "fst_op" => opFstOp (K := K) j
  | "wfsa_op" => opWfsaOp (K := K) j
  | "wfsa_op2" => opWfsaOp2 (K := K) j
  | "shape" => opShape (K := K) j
  | "ucycle_pred" => opUcyclePred (K := K) j
  | "transform" => opTransform (K := K) j
  | "wn" => opWn (K := K) j
  | _ => throw s!"unknown op {op}"
end

instance {K : Type} [HasInv K] [Zero K] : HasInv (Expc K) := ⟨fun _ => none⟩
instance {K : Type} : HasStar (Expc K) := ⟨fun _ => none⟩

/-- {"op":"lift_expectation","cfg":…,"n":N}: ZN of the Expectation-lifted grammar (model of `expected_length`) -/
def opLiftExp (j : Json) : E Json := do
  let G : CFG Sx Rat ← cfgOfJson (← getField j "cfg")
  opZnG (K := Expc Rat) (liftExpectation G) j

def opLiftExpF (j : Json) : E Json := do
  let G : CFG Sx Float ← cfgOfJson (← getField j "cfg")
  let G' : CFG Sx (Expc Float) := { S := G.S, V := G.V, rules := G.rules.map fun r =>
    ⟨⟨r.w, r.w * Float.ofNat (numTerminals G.V r.body)⟩, r.head, r.body⟩ }
  opZnG (K := Expc Float) G' j

instance : BEq (Expc Float) := ⟨fun a b => a.p == b.p && a.r == b.r⟩

/-! ### the GENERATED semiring operations, executed (validation of the translator against the classes) -/
section GenSemi
open Gen

def tagOfJson (j : Json) : E Tag := do
  match ← getStr j with
  | "zero" => pure Tag.zero | "one" => pure Tag.one | _ => pure Tag.fresh

def ratBotOfJson (j : Json) : E RatBot :=
  match j with
  | .str "-inf" => pure ⟨none⟩
  | _ => do pure ⟨some (← ratOfJson j)⟩
def ratBotToJson (x : RatBot) : Json := match x.v with | none => .str "-inf" | some q => .str (ratToString q)

def floatOfJson (j : Json) : E Float :=
  match j with
  | .str "-inf" => pure (-(1.0 / 0.0))
  | .str "inf" => pure (1.0 / 0.0)
  | _ => do let q ← ratOfJson j; pure (Float.ofInt q.num / Float.ofNat q.den)
def floatToJson (f : Float) : Json := Json.mkObj [("bits", .num ⟨f.toBits.toNat, 0⟩)]

/-- {"op":"semiring","type":T,"f":"add"|"mul"|"star"|"zero"|"one","a":…,"b":…} -/
def opSemiring (j : Json) : E Json := do
  let ty ← getStr (← getField j "type")
  let f ← getStr (← getField j "f")
  let ja := (j.getObjVal? "a").toOption.getD Json.null
  let jb := (j.getObjVal? "b").toOption.getD Json.null
  let pairOf (x : Json) : E (Rat × Rat) := do
    match ← getArr (← getField x "score") with
    | [p, r] => pure ((← ratOfJson p), (← ratOfJson r))
    | _ => throw "bad pair"
  let pairTo (p : Rat × Rat) : Json := .arr #[.str (ratToString p.1), .str (ratToString p.2)]
  match ty with
  | "Boolean" => do
      let g (x : Json) : E Bool := match x with | .bool b => pure b | _ => pure false
      let a ← g ja; let b ← g jb
      pure (.bool (match f with | "add" => Genlm.Gen.Boolean.add a b | "mul" => Genlm.Gen.Boolean.mul a b | "star" => Genlm.Gen.Boolean.star a | "zero" => Genlm.Gen.Boolean.zeroV | _ => Genlm.Gen.Boolean.oneV))
  | "Real" | "Float" | "MaxTimes" => do
      let a ← (if ja == Json.null then pure 0 else ratOfJson ja); let b ← (if jb == Json.null then pure 0 else ratOfJson jb)
      let r : Rat := match ty, f with
        | "Real", "add" => Genlm.Gen.Real.add a b | "Real", "mul" => Genlm.Gen.Real.mul a b | "Real", "star" => Genlm.Gen.Real.star a | "Real", "zero" => Genlm.Gen.Real.zeroV | "Real", _ => Genlm.Gen.Real.oneV
        | "Float", "add" => Genlm.Gen.Float.add a b | "Float", "mul" => Genlm.Gen.Float.mul a b | "Float", "star" => Genlm.Gen.Float.star a | "Float", "zero" => Genlm.Gen.Float.zeroV | "Float", _ => Genlm.Gen.Float.oneV
        | _, "add" => Genlm.Gen.MaxTimes.add a b | _, "mul" => Genlm.Gen.MaxTimes.mul a b | _, "star" => Genlm.Gen.MaxTimes.star a | _, "zero" => Genlm.Gen.MaxTimes.zeroV | _, _ => Genlm.Gen.MaxTimes.oneV
      pure (.str (ratToString r))
  | "MaxPlus" => do
      let a ← (if ja == Json.null then pure (0 : RatBot) else ratBotOfJson ja); let b ← (if jb == Json.null then pure (0 : RatBot) else ratBotOfJson jb)
      let ninf : RatBot := ⟨none⟩
      pure (ratBotToJson (match f with | "add" => Genlm.Gen.MaxPlus.add a b | "mul" => Genlm.Gen.MaxPlus.mul a b | "star" => Genlm.Gen.MaxPlus.star a | "zero" => Genlm.Gen.MaxPlus.zeroV ninf | _ => Genlm.Gen.MaxPlus.oneV))
  | "Expectation" => do
      let a ← (if ja == Json.null then pure (0, 0) else pairOf ja); let b ← (if jb == Json.null then pure (0, 0) else pairOf jb)
      pure (pairTo (match f with | "add" => Genlm.Gen.Expectation.add a b | "mul" => Genlm.Gen.Expectation.mul a b | "star" => Genlm.Gen.Expectation.star a | "zero" => Genlm.Gen.Expectation.zeroV | _ => Genlm.Gen.Expectation.oneV))
  | "Entropy" => do
      let tv (x : Json) : E (Tag × Rat × Rat) := do
        if x == Json.null then pure (Tag.fresh, 0, 0) else
        pure ((← tagOfJson (← getField x "tag")), (← pairOf x))
      let a ← tv ja; let b ← tv jb
      let r : Tag × Rat × Rat := match f with | "add" => Genlm.Gen.Entropy.add a b | "mul" => Genlm.Gen.Entropy.mul a b | "star" => Genlm.Gen.Entropy.star a | "zero" => Genlm.Gen.Entropy.zeroV | _ => Genlm.Gen.Entropy.oneV
      pure (Json.mkObj [("tag", .str (match r.1 with | .zero => "zero" | .one => "one" | .fresh => "fresh")), ("score", pairTo r.2)])
  | "Log" => do
      let a ← (if ja == Json.null then pure (0.0 : Float) else floatOfJson ja); let b ← (if jb == Json.null then pure (0.0 : Float) else floatOfJson jb)
      let ninf : Float := -(1.0 / 0.0)
      pure (floatToJson (match f with
        | "add" => Genlm.Gen.Log.add ninf Float.log Float.exp a b | "mul" => Genlm.Gen.Log.mul ninf a b
        | "star" => Genlm.Gen.Log.star Float.exp (fun x => Float.log (1.0 + x)) a | "zero" => Genlm.Gen.Log.zeroV ninf | _ => Genlm.Gen.Log.oneV))
  | _ => throw s!"unknown semiring type {ty}"
end GenSemi

def lblStr : Option Char → String
  | some c => c.toString
  | none => ""

/-- {"op":"fsm_to_wfsa","initial":q,"states":[…],"finals":[…],"map":[[i,cls,j]…],"live":[…],"expand":[[cls,[str…]]…]}
→ the WFSA the FSM→WFSA step of `interegular_to_wfsa` builds (mirror model, weights exact) -/
def opFsmToWfsa (j : Json) : E Json := do
  let initial ← getNat (← getField j "initial")
  let states ← (← getArr (← getField j "states")).mapM getNat
  let finals ← (← getArr (← getField j "finals")).mapM getNat
  let live ← (← getArr (← getField j "live")).mapM getNat
  let map ← (← getArr (← getField j "map")).mapM fun e => do
    match ← getArr e with
    | [a, b, c] => pure ((← getNat a), (← getNat b), (← getNat c))
    | _ => throw "bad map entry"
  let expand ← (← getArr (← getField j "expand")).mapM fun e => do
    match ← getArr e with
    | [a, l] => pure ((← getNat a), (← (← getArr l).mapM getStr))
    | _ => throw "bad expand entry"
  let liveF : Nat → Bool := fun q => decide (q ∈ live)
  let expandF : Nat → List (List Char) := fun c =>
    match expand.find? (fun e => e.1 = c) with
    | some e => e.2.map String.toList
    | none => []
  let F : Fsm Nat Nat := ⟨initial, states, finals, map, liveF, expandF⟩
  let A : WFSA Nat Char Rat := fsmToWfsa (fun n => if n = 0 then 0 else 1 / (n : Rat)) F
  let pj (l : List (Nat × Rat)) : Json := .arr (l.map fun e => Json.arr #[.num ⟨e.1, 0⟩, .str (ratToString e.2)]).toArray
  pure (Json.mkObj [("start", pj A.start), ("stop", pj A.stop),
    ("arcs", .arr (A.arcs.map fun e => Json.arr #[.num ⟨e.src, 0⟩, .str (lblStr e.lbl), .num ⟨e.dst, 0⟩, .str (ratToString e.w)]).toArray)])

/-- {"op":"tarjan","roots":[v…],"succ":[[v,[w…]]…],"fuel":N?} → {"blocks":[[…]…],"ok":b,"stack_empty":b} :
the mirror model `tarjan` of `scc_decomposition(successors, roots)` (`Model/Tarjan.lean`, proved in `Proofs/Tarjan.lean`) run on
explicit ITERATION ORDERS: `roots` is `list(roots)` and `succ` lists, per node `v`, `list(successors(v))` exactly as the real
Python sets iterate (a node without an entry has no successors).  `blocks` are the components in emission order, each one the
list of its nodes in pop order; `ok` is the model's flag (no `KeyError`/`IndexError`, fuel sufficient); the default fuel is the
number of distinct nodes mentioned (`tarjan_correct` needs no more; `WGraph.tarjanBlocks` uses `nodes.length`). -/
def opTarjan (j : Json) : E Json := do
  let roots ← sxList (← getField j "roots")
  let tbl ← (← getArr (← getField j "succ")).mapM fun e => do
    match ← getArr e with
    | [v, l] => pure ((← sxOfJson v), (← sxList l))
    | _ => throw "bad succ entry"
  let succ : Sx → List Sx := fun v =>
    match tbl.find? (fun e => e.1 = v) with
    | some e => e.2
    | none => []
  let nodes := linDedup (roots ++ tbl.flatMap fun e => e.1 :: e.2)
  let fuel ← optNat j "fuel" nodes.length
  let s := tjRun succ roots fuel
  pure (Json.mkObj [("blocks", .arr (s.out.map fun N => Json.arr (N.map sxToJson).toArray).toArray),
    ("ok", .bool s.ok), ("stack_empty", .bool s.stack.isEmpty), ("fuel", .num ⟨fuel, 0⟩)])

def runOp (j : Json) : E Json := do
  let op ← getStr (← getField j "op")
  if op == "semiring" then return (← opSemiring j)
  if op == "fsm_to_wfsa" then return (← opFsmToWfsa j)
  if op == "tarjan" then return (← opTarjan j)
  let R ← match j.getObjVal? "R" with | .ok (.str r) => pure r | _ => pure "Float"
  match R with
  | "Float" | "Real" => (match op with
      | "cert" => opCert (K := Rat) j
      | "tzeng_equiv" => opTzengEquiv (K := Rat) j
      | "tzeng_min" => opTzengMin (K := Rat) j
      | _ => runOpK (K := Rat) op j)
  | "F64" => (match op with
      | "wn" => opWn (K := Float) j
      | "zn" => opZn (K := Float) j
      | "pn" => opPn (K := Float) j
      | "tpn" => opTpn (K := Float) j
      | "lift_expectation" => opLiftExpF j
      | _ => throw s!"op {op} not available over F64")
  | "Expectation" => (match op with
      | "lift_expectation" => opLiftExp j
      | _ => runOpK (K := Expc Rat) op j)
  | "Boolean" => runOpK (K := BoolW) op j
  | "MaxTimes" => runOpK (K := MaxT) op j
  | "Lang" => runOpK (K := LangW) op j
  | _ => throw s!"unknown semiring {R}"

end Genlm
