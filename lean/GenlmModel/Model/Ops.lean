import GenlmModel.Model.Json
import GenlmModel.Model.Transform
import GenlmModel.Model.Shape
/-! Operation dispatch of the driver: one JSON object in, one JSON object out. -/
namespace Genlm
open Lean (Json)

section
variable {K : Type} [Wt K] [BEq K]

/-- {"op":"wn","cfg":…,"n":N,"xs":[[…],…]} → {"vals":[…], "half":[…]} :
`WN G n S x` and `WN G (n/2) S x` for every string -/
def opWn (j : Json) : E Json := do
  let G : CFG Sx K ← cfgOfJson (← getField j "cfg")
  let n ← getNat (← getField j "n")
  let xs ← (← getArr (← getField j "xs")).mapM sxList
  let maxbits ← match j.getObjVal? "maxbits" with | .ok v => getNat v | _ => pure 4000
  let keys := tabKeys G xs
  -- first half, giving up (→ deep float run requested by the harness) when exact numbers explode
  let rec half (fuel : Nat) (t : Tab Sx K) : Option (Tab Sx K) :=
    match fuel with
    | 0 => some t
    | fuel + 1 =>
      let t' := tabStep G keys t
      if t'.any (fun e => Wt.bits e.2 > maxbits) then none else half fuel t'
  let some h := half (n / 2) [] | pure (Json.mkObj [("stable", .bool false), ("exploded", .bool true)])
  -- continue from the half-way table; stop early once the table is a fixed point
  let rec go (fuel : Nat) (t : Tab Sx K) (used : Nat) : Tab Sx K × Nat × Bool :=
    match fuel with
    | 0 => (t, used, false)
    | fuel + 1 =>
      let t' := tabStep G keys t
      if (t'.map (·.2)) == (t.map (·.2)) && t'.length == t.length then (t, used, true)
      else if t'.any (fun e => Wt.bits e.2 > maxbits) then (t, used, false)
      else go fuel t' (used + 1)
  let (t, used, stable) := go (n - n / 2) h (n / 2)
  pure (Json.mkObj [("vals", .arr (xs.map fun x => Wt.toJson (t.get G.S x)).toArray),
                    ("half", .arr (xs.map fun x => Wt.toJson (h.get G.S x)).toArray),
                    ("n", .num ⟨used, 0⟩), ("stable", .bool stable), ("keys", .num ⟨keys.length, 0⟩)])

/-- Python `str(x)` for the names the library formats into `_gen_nt` prefixes -/
def pyStr : Sx → String
  | .s v => v
  | .i v => toString v
  | _ => "?"

def genNt (pre : String) (i : Nat) : Sx := .s (pre ++ "@" ++ toString i)

def optNat (j : Json) (k : String) (d : Nat) : E Nat :=
  match j.getObjVal? k with | .ok v => getNat v | _ => pure d

/-- [[sym, w], …] → total function, default 0 -/
def fun1OfJson (j : Json) : E (Sx → K) := do
  let l ← (← getArr j).mapM fun e => do
    match ← getArr e with
    | [a, w] => pure ((← sxOfJson a), (← Wt.ofJson w : K))
    | _ => throw "bad pair"
  pure fun x => match l.find? (fun e => e.1 = x) with | some e => e.2 | none => 0

/-- [[a, b, w], …] → total function of two arguments, default 0 -/
def fun2OfJson (j : Json) : E (Sx → Sx → K) := do
  let l ← (← getArr j).mapM fun e => do
    match ← getArr e with
    | [a, b, w] => pure (((← sxOfJson a), (← sxOfJson b)), (← Wt.ofJson w : K))
    | _ => throw "bad triple"
  pure fun x y => match l.find? (fun e => e.1 = (x, y)) with | some e => e.2 | none => 0

def utf8 : Sx → List Sx
  | .s v => v.toUTF8.toList.map fun b => Sx.i b.toNat
  | x => [x]

def cfgOut (G : CFG Sx K) (ctr : Nat) : Json :=
  Json.mkObj [("cfg", cfgToJson G), ("ctr", .num ⟨ctr, 0⟩)]

variable [DecidableEq K] in
/-- {"op":"transform","name":…,"cfg":…,"ctr":k,…} → {"cfg":…,"ctr":k'} — mirror models of cfg.py -/
def opTransform (j : Json) : E Json := do
  let G : CFG Sx K ← cfgOfJson (← getField j "cfg")
  let name ← getStr (← getField j "name")
  let ctr ← optNat j "ctr" 0
  match name with
  | "separate_start" => pure (cfgOut (separateStart G (genNt (pyStr G.S) (ctr + 1))) (if G.S ∈ bodySyms G then ctr + 1 else ctr))
  | "separate_terminals" => let (G', c) := separateTerminals (genNt "") G ctr; pure (cfgOut G' c)
  | "binarize" => let (G', c) := binarize (genNt "") G ctr; pure (cfgOut G' c)
  | "push_null" => do
      let nw ← fun1OfJson (K := K) (← getField j "null_weight")
      pure (cfgOut (pushNull nw (fun x => Sx.tag "NotNull" [x]) G) ctr)
  | "unaryremove" => do
      let W ← fun2OfJson (K := K) (← getField j "W")
      pure (cfgOut (unaryRemove W G) ctr)
  | "unfold" => do
      let i ← getNat (← getField j "i")
      let k ← getNat (← getField j "k")
      match unfoldRule G i k with
      | some G' => pure (cfgOut G' ctr)
      | none => pure (Json.mkObj [("exc", "Assertion")])
  | "trim" => pure (cfgOut (trim G) ctr)
  | "cotrim" => pure (cfgOut (cotrim G) ctr)
  | "derivative" => do
      let a ← sxOfJson (← getField j "a")
      let i ← optNat j "i" 0
      let U ← fun1OfJson (K := K) (← getField j "U")
      pure (cfgOut (derivative (fun x => Sx.tag "Slash" [x, a, .i i]) U a G) ctr)
  | "to_bytes" => pure (cfgOut (cfgToBytes utf8 G) ctr)
  | "add_eos" => do
      let eos ← sxOfJson (← getField j "eos")
      pure (cfgOut { (addEOS G (genNt "<START>" (ctr + 1)) eos) with V := G.V ++ [eos] } (ctr + 1))
  | "sep_start_unconditional" => pure (cfgOut (sepStart G (genNt (pyStr G.S) (ctr + 1))) (ctr + 1))
  | _ => throw s!"unknown transformation {name}"

variable [DecidableEq K] in
/-- {"op":"shape","cfg":…,"orig":…} → the C07 predicates on `cfg` -/
def opShape (j : Json) : E Json := do
  let G : CFG Sx K ← cfgOfJson (← getField j "cfg")
  let og : Option (CFG Sx K) ← match j.getObjVal? "orig" with
    | .ok v => do pure (some (← cfgOfJson v))
    | _ => pure none
  let b (x : Bool) : Json := .bool x
  pure (Json.mkObj [("in_cnf", b (inCNFb G)), ("start_off_rhs", b (startOffRhs G)),
    ("no_nullary_except_start", b (noNullaryExceptStart G)), ("no_unary", b (noUnary G)),
    ("arity_le_2", b (arityLe2 G)), ("terminals_separated", b (terminalsSeparated G)),
    ("no_unary_cycle", b (noUnaryCycle G)), ("trim_useful", b (trimUseful G)),
    ("orig_start_generating", b (match og with | some o => decide (o.S ∈ generating o) | none => true))])

def runOpK [DecidableEq K] (op : String) (j : Json) : E Json :=
  match op with
  | "shape" => opShape (K := K) j
  | "transform" => opTransform (K := K) j
  | "wn" => opWn (K := K) j
  | _ => throw s!"unknown op {op}"
end

def runOp (j : Json) : E Json := do
  let op ← getStr (← getField j "op")
  let R ← match j.getObjVal? "R" with | .ok (.str r) => pure r | _ => pure "Float"
  match R with
  | "Float" | "Real" => runOpK (K := Rat) op j
  | "F64" => opWn (K := Float) j
  | "Boolean" => runOpK (K := BoolW) op j
  | "MaxTimes" => runOpK (K := MaxT) op j
  | _ => throw s!"unknown semiring {R}"

end Genlm
