/-! Executable least model of a Horn-clause program (DESIGN 4.5).  No Mathlib. -/
namespace Genlm
variable {α : Type} [DecidableEq α]

/-- a Horn clause over atoms α -/
structure Clause (α : Type) where
  prem : List α
  concl : α

/-- one round: add the conclusions of all clauses whose premises are already in `s` -/
def hstep (cs : List (Clause α)) (s : List α) : List α :=
  s ++ (cs.filter (fun c => c.prem.all (· ∈ s))).map (·.concl)

def hiter (cs : List (Clause α)) : Nat → List α → List α
  | 0, s => s
  | n+1, s => hiter cs n (hstep cs s)

/-- executable least fixpoint: |cs|+1 rounds suffice (`hlfp_spec`) -/
def hlfp (cs : List (Clause α)) : List α := hiter cs (cs.length + 1) []

end Genlm
