import GenlmModel.Model.Transform
import GenlmModel.Model.Shape
import GenlmModel.Model.Linear
/-! Mirror model of `CFG.unarycycleremove(trim=False)` and `CFG._unary_graph`
(`genlm/grammar/cfg.py`).  No Mathlib.

`unaryCycleRemove` takes as *inputs* what the Python code reads off the `WeightedGraph`
`G = self._unary_graph()`: the accumulated weights `A X Y = G[X, Y]`, the list `G.Blocks`
(strongly connected components with their closure matrices as `_closure` computed them) and the
naming function `bot x = (x, "bot")`.  `unaryGraph` mirrors `_unary_graph`, so the inputs can be
instantiated with `(unaryGraph G).E` and `mkBlocks (unaryGraph G) star bl` for a decomposition
`bl` accepted by `sccCheck`.

Both instantiations are run against the real code by `harness/props/cfg_transforms.py` (driver
transformations `unarycycleremove`: `A`, `blocks` as the real call computed them;
`unarycycleremove_full`: only the order of the blocks is taken from the code, graph, SCC check,
closures and the rules are the model's). -/
namespace Genlm
section
variable {σ K : Type} [DecidableEq σ] [DecidableEq K] [Add K] [Mul K] [Zero K] [One K]

/-- the loop `A[r.head, r.body[0]] += r.w` of `_unary_graph` on the chart `E`.
`WeightedGraph.__setitem__` stores the new value if it is different from zero (and then registers
the key in `incoming`/`outgoing`); when the updated value *is* zero it deletes the key from `E`
and from `incoming`/`outgoing` (`del self.E[i, j]`, fix 44ba871 — before that fix the chart kept
the old, stale value).  Several entries for one key accumulate (`wlook`); deleting a key removes all
of its entries. -/
def unaryGraphEdges (V : List σ) : List (Rule σ K) → List ((σ × σ) × K) → List ((σ × σ) × K)
  | [], es => es
  | r :: rs, es =>
    match r.body with
    | [y] =>
      if y ∈ V then unaryGraphEdges V rs es
      else if wlook es (r.head, y) + r.w = 0 then
        unaryGraphEdges V rs (es.filter fun e => e.1 ≠ (r.head, y))
      else unaryGraphEdges V rs (es ++ [((r.head, y), r.w)])
    | _ => unaryGraphEdges V rs es

/-- `_unary_graph`: `__setitem__` adds both endpoints of every unary rule to `N` (whatever the
value), then `A.N |= self.N`. -/
def unaryGraph (G : CFG σ K) : WGraph σ K :=
  { nodes := linDedup (nonterminals G ++ (unaryEdges G).flatMap fun e => [e.1, e.2]),
    edges := unaryGraphEdges G.V G.rules [] }

/-- no unary rule of non-zero weight lost its key in `E` to a cancellation: the (decidable)
hypothesis under which the blocks of `_unary_graph()` are the strongly connected components of the
graph of the unary *rules*.  It always holds where non-zero weights cannot cancel
(`UCycleAux.unaryGraph_arcs`). -/
def unaryArcsComplete (G : CFG σ K) : Bool :=
  G.rules.all fun r =>
    match r.body with
    | [y] => decide (y ∈ G.V) || decide (r.w = 0) || decide ((r.head, y) ∈ (unaryGraph G).arcs)
    | _ => true

/-- `has_unary_cycle`, given `bl = self._unary_graph().blocks`: `f.get(x)` is `blockIdx bl x`
(`None`, for a symbol in no block, is `bl.length`); the test is applied to every rule with a body
of length one, terminal or not, exactly as the code does. -/
def hasUnaryCycle (bl : List (List σ)) (G : CFG σ K) : Bool :=
  G.rules.any fun r =>
    match r.body with
    | [y] => decide (blockIdx bl r.head = blockIdx bl y)
    | _ => false

/-- the set `acyclic`: nodes `X` of singleton blocks with `G[X, X] == zero` -/
def ucAcyclic (A : σ → σ → K) (blocks : List (Block σ K)) : List σ :=
  blocks.filterMap fun b =>
    match b.nodes with
    | [X] => if A X X = 0 then some X else none
    | _ => none

/-- the local function `bot(x)` of `unarycycleremove`; `bot x` stands for `(x, "bot")` -/
def ucBot (acyclic : List σ) (bot : σ → σ) (x : σ) : σ := if x ∈ acyclic then x else bot x

/-- the test `len(nodes) == 1 and X in acyclic` that skips a block -/
def ucSkipBlock (acyclic : List σ) (b : Block σ K) : Bool :=
  match b.nodes with
  | [X] => decide (X ∈ acyclic)
  | _ => false

/-- the test `len(r.body) == 1 and bucket.get(r.body[0]) == bucket[r.head]` that drops a rule.
`bucket` is `blockIdx bl`; `bucket.get(y)` is `None` (never equal to a bucket) when `y` is in no
block, which is `blockIdx bl y = bl.length`. -/
def ucSkipRule (bl : List (List σ)) (r : Rule σ K) : Bool :=
  match r.body with
  | [y] => decide (blockIdx bl y < bl.length ∧ blockIdx bl y = blockIdx bl r.head)
  | _ => false

/-- the rules `X1 → bot(X2)` with weight `W[X1, X2]` for the cyclic blocks -/
def ucBlockRules (acyclic : List σ) (bot : σ → σ) (blocks : List (Block σ K)) : List (Rule σ K) :=
  blocks.flatMap fun b =>
    if ucSkipBlock acyclic b then []
    else b.clo.map fun e => ⟨e.2, e.1.1, [ucBot acyclic bot e.1.2]⟩

/-- the rules `bot(r.head) → r.body` for the rules of `G` that are kept -/
def ucKeptRules (acyclic : List σ) (bot : σ → σ) (bl : List (List σ)) (rules : List (Rule σ K)) :
    List (Rule σ K) :=
  (rules.filter fun r => !ucSkipRule bl r).map fun r => ⟨r.w, ucBot acyclic bot r.head, r.body⟩

/-- `unarycycleremove(trim=False)`, given `A X Y = G[X, Y]`, `blocks = G.Blocks` and the naming
function `bot` -/
def unaryCycleRemove (A : σ → σ → K) (blocks : List (Block σ K)) (bot : σ → σ) (G : CFG σ K) :
    CFG σ K :=
  let acyclic := ucAcyclic A blocks
  { S := G.S, V := G.V,
    rules := mkRules (ucBlockRules acyclic bot blocks ++
      ucKeptRules acyclic bot (blocks.map (·.nodes)) G.rules) }

end
end Genlm
