import GenlmModel.Model.IncCky
import GenlmModel.Model.Memo
import GenlmModel.Generated.Earley
/-!
Mirror model of `genlm/grammar/parse/earley.py`, class `Earley` (the grammar is the one *after* the
preprocessing `cfg.nullaryremove(binarize=True).unarycycleremove().renumber()` of `__init__`).

Representation choices (none of them observable through the values the parser returns):

* `Ys` — the Python code interns every suffix `r.body[p:]` as an integer (`intern_Ys`, injective);
  `first_Ys`, `rest_Ys`, `unit_Ys` are `head`, `tail`, `length = 1`.  The model uses the suffix itself.
* a `Column` is `ECol`: `k`, `i_chart`, `c_chart` as insertion-ordered association lists (`PyChart`).
  `waiting_for[Y]` is *derived*: `_update` appends the item to `waiting_for[first_Ys[Ys]]` exactly when it inserts
  it into `i_chart`, so `waiting_for[Y]` is the sub-list of the keys of `i_chart` whose first symbol is `Y`, in
  insertion order (`ECol.waitingFor`), and `list(col.waiting_for)` is the list of first symbols in order of first
  occurrence (`ECol.waitingKeys`).  (Reading `col.waiting_for[Y]` of a `defaultdict` for a missing `Y` inserts an
  empty list; this can only add explicit zero entries to the result of `next_token_weights`.)
* the agenda `Q` of `next_column` (a max-heap keyed by `-((K - I) * ORDER_MAX + order[X])`) is replaced by a
  *schedule*: the list of all potential complete items `(I, X)`, `I < K`, `X` a head, in pop order; an item that is
  not in `c_chart` when its turn comes is skipped (`attachOne`).  `nextColumnWith` takes any schedule;
  `schedule` sorts by the generated priority expression `Gen.Earley.prio` (stable insertion sort: ties in the order
  `(I, X)` ascending — the real heap breaks ties arbitrarily; the correctness theorem holds for *every*
  schedule that respects the dependencies, `SchedOK`).  `Model/EarleyQ.lean` models the agenda literally
  (push in `_update`, pop of a maximal item) and `Proofs/EarleyQ.lean` shows that it computes exactly a scheduled
  column with a `SchedOK` schedule.
* `reachable` in `PREDICT` is a Python `set`; the model keeps it as a list in discovery order.  The `while agenda`
  loop gets fuel `|agenda| + |rules| + 1` (sufficient: `lcLoop_closed`).
* `_helper` (explicit stack, memo `q`) is the recursive memoised depth-first evaluation `helperNode`, with fuel
  `|cols| * ORDER_MAX + 1` (sufficient: `helper_spec`).
-/
namespace Genlm
section
variable {κ σ K : Type} [DecidableEq κ] [DecidableEq σ] [Add K] [Mul K] [Zero K] [One K]

/-- `_update` on one dict: `d[k] = v` if `k` is missing, else `d[k] = was + v` -/
def PyChart.upd : PyChart κ K → κ → K → PyChart κ K
  | [], k, v => [(k, v)]
  | e :: c, k, v => if e.1 = k then (e.1, e.2 + v) :: c else e :: PyChart.upd c k v

/-- `k in d` -/
def PyChart.has (c : PyChart κ K) (k : κ) : Bool := c.any (fun e => e.1 = k)

/-- `d[k] = v` -/
def PyChart.set : PyChart κ K → κ → K → PyChart κ K
  | [], k, v => [(k, v)]
  | e :: c, k, v => if e.1 = k then (e.1, v) :: c else e :: PyChart.set c k v

/-- an incomplete item `(I, X, Ys)` -/
abbrev EItem (σ : Type) := Nat × σ × List σ

/-- `Column` -/
structure ECol (σ K : Type) where
  k : Nat
  i_chart : PyChart (EItem σ) K
  c_chart : PyChart (Nat × σ) K

/-- `Column(k)` -/
def ECol.empty (k : Nat) : ECol σ K := ⟨k, [], []⟩

/-- `col.waiting_for[Y]` -/
def ECol.waitingFor (col : ECol σ K) (Y : σ) : List (EItem σ) :=
  (col.i_chart.map (·.1)).filter (fun it => it.2.2.head? = some Y)

/-- `list(col.waiting_for)` -/
def ECol.waitingKeys (col : ECol σ K) : List σ :=
  (col.i_chart.filterMap (fun e => e.1.2.2.head?)).eraseDups

/-- `_update(col, Q, I, X, Ys, value)` (without the push on `Q`) -/
def eUpdate (col : ECol σ K) (I : Nat) (X : σ) (Ys : List σ) (v : K) : ECol σ K :=
  if Ys = [] then { col with c_chart := col.c_chart.upd (I, X) v }
  else { col with i_chart := col.i_chart.upd (I, X, Ys) v }

/-- SCAN loop of `next_column` -/
def scanStep (prev : ECol σ K) (token : σ) (next : ECol σ K) : ECol σ K :=
  (prev.waitingFor token).foldl
    (fun col it => eUpdate col it.1 it.2.1 it.2.2.tail (prev.i_chart.get it)) next

/-- one iteration of the ATTACH loop of `next_column` for the popped item `jy = (J, Y)`
(skipped when `(J, Y)` was never pushed, i.e. is not a key of `c_chart`) -/
def attachOne (cols : List (ECol σ K)) (next : ECol σ K) (jy : Nat × σ) : ECol σ K :=
  if next.c_chart.has jy then
    let colJ := cols.getD jy.1 (ECol.empty jy.1)
    let y := next.c_chart.get jy
    (colJ.waitingFor jy.2).foldl
      (fun col it => eUpdate col it.1 it.2.1 it.2.2.tail (colJ.i_chart.get it * y)) next
  else next

/-! ### `PREDICT` -/

/-- `R_outgoing[X]`: the nonterminal left corners of the rules of `X` -/
def lcOut (G : CFG σ K) (X : σ) : List σ :=
  (G.rules.filterMap fun r =>
    if r.head = X then
      match r.body with
      | B :: _ => if B ∈ G.V then none else some B
      | [] => none
    else none).eraseDups

/-- `while agenda: X = agenda.pop(); for Y in outgoing[X]: if Y not in reachable: …`
(the head of the list is the top of the stack) -/
def lcLoop (G : CFG σ K) : Nat → List σ → List σ → List σ
  | 0, _, R => R
  | _ + 1, [], R => R
  | fuel + 1, X :: agenda, R =>
    let new := (lcOut G X).filter (fun Y => Y ∉ R)
    lcLoop G fuel (new.reverse ++ agenda) (R ++ new)

/-- `self.rhs[X]`: the rules of `X` with a non-empty body -/
def rhsOf (G : CFG σ K) (X : σ) : List (K × List σ) :=
  (G.rules.filter (fun r => r.head = X ∧ r.body ≠ [])).map fun r => (r.w, r.body)

/-- the set `reachable` of `PREDICT(col)` -/
def predReach (G : CFG σ K) (col : ECol σ K) : List σ :=
  let agenda := if col.k = 0 then [G.S] else col.waitingKeys
  lcLoop G (agenda.length + G.rules.length + 1) agenda.reverse agenda.eraseDups

/-- `PREDICT(col)` -/
def predict (G : CFG σ K) (col : ECol σ K) : ECol σ K :=
  let k := col.k
  (predReach G col).foldl (fun col X =>
    (rhsOf G X).foldl (fun col wYs => eUpdate col k X wYs.2 wYs.1) col) col

/-! ### `next_column`, `chart`, `__call__` -/

/-- `next_column(prev_cols, token)` before the final `PREDICT`, popping in the order `sched` -/
def nextColumnPre (sched : List (Nat × σ)) (prevCols : List (ECol σ K)) (token : σ) : ECol σ K :=
  let prev := prevCols.getLastD (ECol.empty 0)
  sched.foldl (attachOne prevCols) (scanStep prev token (ECol.empty (prev.k + 1)))

/-- `next_column(prev_cols, token)`, popping in the order `sched` -/
def nextColumnWith (G : CFG σ K) (sched : List (Nat × σ)) (prevCols : List (ECol σ K)) (token : σ) : ECol σ K :=
  predict G (nextColumnPre sched prevCols token)

/-- `max(self.order.values())` over the heads -/
def orderMaxArg (G : CFG σ K) (order : σ → Nat) : Nat := (heads G).foldl (fun m X => max m (order X)) 0

/-- the priority `Q[item] = -((K - I) * self.ORDER_MAX + self.order[X])` (generated expression) -/
def itemPrio (G : CFG σ K) (order : σ → Nat) (k : Nat) (jy : Nat × σ) : Int :=
  Gen.Earley.prio (k : Int) (jy.1 : Int) (Gen.Earley.orderMax (orderMaxArg G order : Int)) (order jy.2 : Int)

/-- all potential complete items of column `k` -/
def schedCands (G : CFG σ K) (k : Nat) : List (Nat × σ) :=
  (List.range k).flatMap fun I => (heads G).map fun X => (I, X)

/-- insert into a list sorted by decreasing priority, after the entries of equal priority -/
def insertPrio {α : Type} (p : α → Int) (a : α) : List α → List α
  | [] => [a]
  | b :: l => if p a ≤ p b then b :: insertPrio p a l else a :: b :: l

/-- stable insertion sort by decreasing priority -/
def sortPrio {α : Type} (p : α → Int) (l : List α) : List α := l.foldl (fun acc a => insertPrio p a acc) []

/-- the pop order of the max-heap: decreasing priority -/
def schedule (G : CFG σ K) (order : σ → Nat) (k : Nat) : List (Nat × σ) :=
  sortPrio (itemPrio G order k) (schedCands G k)

/-- `self._initial_column` -/
def earleyInit (G : CFG σ K) : ECol σ K := predict G (ECol.empty 0)

/-- `next_column` as a function of the chart and the token, for a family of pop orders (`sch k` for column `k`) -/
def earleyExtWith (G : CFG σ K) (sch : Nat → List (Nat × σ)) (cols : List (ECol σ K)) (token : σ) : ECol σ K :=
  nextColumnWith G (sch ((cols.getLastD (ECol.empty 0)).k + 1)) cols token

/-- `Earley.chart(x)` computed from scratch (`_compute_chart` unrolled; the memo table `self._chart` is the
`chartM` of `Model/Memo.lean`, transparent by `chartM_transparent`), for a family of pop orders -/
def earleyChartWith (G : CFG σ K) (sch : Nat → List (Nat × σ)) (x : List σ) : List (ECol σ K) :=
  pureChart (earleyInit G) (earleyExtWith G sch) x

/-- `Earley.chart(x)` with the pop order given by the priorities -/
def earleyChart (G : CFG σ K) (order : σ → Nat) (x : List σ) : List (ECol σ K) :=
  earleyChartWith G (schedule G order) x

/-- `sum((r.w for r in self.cfg.rhs[self.cfg.S] if r.body == ()), start=zero)` -/
def earleyNullary (G : CFG σ K) : K :=
  G.rules.foldl (fun acc r => if r.head = G.S ∧ r.body = [] then acc + r.w else acc) 0

/-- `Earley.__call__(x)`, for a family of pop orders -/
def earleyCallWith (G : CFG σ K) (sch : Nat → List (Nat × σ)) (x : List σ) : K :=
  if x.length = 0 then earleyNullary G
  else ((earleyChartWith G sch x).getD x.length (ECol.empty 0)).c_chart.get (0, G.S)

/-- `Earley.__call__(x)` -/
def earleyCall (G : CFG σ K) (order : σ → Nat) (x : List σ) : K := earleyCallWith G (schedule G order) x

/-! ### `next_token_weights` -/

/-- the memo `q` of `next_token_weights` -/
abbrev QMemo (σ K : Type) := List ((Nat × σ) × K)

/-- `q.get(node)` -/
def QMemo.get? (q : QMemo σ K) (node : Nat × σ) : Option K := (q.find? (fun e => e.1 = node)).map (·.2)

/-- `_helper(node, cols, q)`: returns `q[node]` and the extended memo -/
def helperNode (cols : List (ECol σ K)) : Nat → Nat × σ → QMemo σ K → K × QMemo σ K
  | 0, _, q => (0, q)
  | fuel + 1, node, q =>
    match q.get? node with
    | some v => (v, q)
    | none =>
      let colJ := cols.getD node.1 (ECol.empty node.1)
      let edges := (colJ.waitingFor node.2).filter (fun it => it.2.2.length = 1)
      let r := edges.foldl (fun (acc : K × QMemo σ K) arc =>
        let nb := helperNode cols fuel (arc.1, arc.2.1) acc.2
        (acc.1 + colJ.i_chart.get arc * nb.1, nb.2)) (0, q)
      (r.1, (node, r.1) :: r.2)

/-- fuel for `_helper`: longer than every chain of backward edges (`(J, Y) → (I, X)` has `I < J`, or `I = J` and
`order Y < order X`) -/
def helperFuel (G : CFG σ K) (order : σ → Nat) (cols : List (ECol σ K)) : Nat :=
  cols.length * (orderMaxArg G order + 1) + 1

/-- `next_token_weights(cols)` (`fuel` bounds the depth of `_helper`) -/
def earleyNextTokenWeights (G : CFG σ K) (fuel : Nat) (cols : List (ECol σ K)) : PyChart σ K :=
  let col := cols.getLastD (ECol.empty 0)
  (col.waitingKeys.foldl (fun (st : PyChart σ K × QMemo σ K) Y =>
    if Y ∈ G.V then
      let r := (col.waitingFor Y).foldl (fun (acc : K × QMemo σ K) it =>
        if it.2.2.length = 1 then
          let nb := helperNode cols fuel (it.1, it.2.1) acc.2
          (acc.1 + col.i_chart.get it * nb.1, nb.2)
        else acc) (0, st.2)
      (st.1.set Y r.1, r.2)
    else st) ([], [((0, G.S), 1)])).1

/-- `next_token_weights(chart(p))` -/
def earleyPNext (G : CFG σ K) (order : σ → Nat) (p : List σ) : PyChart σ K :=
  earleyNextTokenWeights G (helperFuel G order (earleyChart G order p)) (earleyChart G order p)

end
end Genlm
