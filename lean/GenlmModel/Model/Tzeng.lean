import GenlmModel.Model.Cert

/-! Executable model of the equivalence test of `genlm/grammar/wfsa/field_wfsa.py`
(`Simple.counterexample`, `Simple.__eq__`, `Simple.forward_basis`) in EXACT arithmetic over a field
given by its operations (in practice `Rat`, the driver's rational type).

The Python code works in floating point with `np.allclose`; here every `approx_equal` test is
replaced by the exact test:
* `not approx_equal(va, vb)`      ↦ `va ≠ vb`,
* `approx_equal(eta, 0)`          ↦ `isZeroVec eta`,
* `not approx_equal(u - q, u)`    ↦ `¬ isZeroVec q` (the residual `q` is not the zero vector; in a
  field `u - q = u ↔ q = 0`, `Proofs/Tzeng.lean: vsub_eq_self_iff_tz`).

Everything else mirrors the code: `proj` is the sequential (modified) Gram–Schmidt residual over the
basis in insertion order, the basis is extended at the END by the residual `q` (not by `u`), the
worklist is a LIFO stack (`deque.append` / `deque.pop`), words are built by prepending (`w1 = (a, w)`),
a symbol without a matrix on one side contributes the zero vector (`0 * VA`, here `A.mat a` is the
zero matrix).  The alphabet `set(self.arcs) | set(B.arcs)` is iterated in an unspecified order in
Python; the model takes the order as a parameter (`tzSearch al`) and `counterexampleQ` fixes
`A.diffSyms B` (symbols of `A` first).  All theorems hold for every order.

`fuel` bounds the number of worklist pops; the outer `none` means out of fuel.  Correctness and
termination (`fuel ≥ A.dim + B.dim` always suffices over an ordered field) are in `Proofs/Tzeng.lean`.
No Mathlib. -/
namespace Genlm

section
variable {K : Type} [Add K] [Mul K] [Zero K] [Sub K] [Div K]

def vsub : Vec K → Vec K → Vec K
  | x :: xs, y :: ys => (x - y) :: vsub xs ys
  | _, _ => []

/-- `proj(u, Q)`: `for q in Q: u = u - ((q @ u) / (q @ q)) * q` -/
def projQ (u : Vec K) : List (Vec K) → Vec K
  | [] => u
  | q :: Q => projQ (vsub u (smul (dot q u / dot q q) q)) Q

/-- exact version of `approx_equal(v, 0)` -/
def isZeroVec [DecidableEq K] (v : Vec K) : Bool := v.all fun x => decide (x = 0)

end

/-- worklist entry `(w, VA, VB)` -/
abbrev TzItem (σ K : Type) := List σ × Vec K × Vec K

section
variable {σ K : Type} [DecidableEq σ] [DecidableEq K] [Add K] [Mul K] [Zero K] [Sub K] [Div K]

/-- the `for a in alphabet` loop for the popped entry `(w, VA, VB)`;
`inl` = `return (w1, va, vb)`, `inr` = the updated worklist and basis. -/
def tzInner (A B : MAut σ K) (w : List σ) (VA VB : Vec K) :
    List σ → List (TzItem σ K) → List (Vec K) →
      Sum (List σ × K × K) (List (TzItem σ K) × List (Vec K))
  | [], work, basis => .inr (work, basis)
  | a :: as, work, basis =>
    let ua := matVec (A.mat a) VA
    let ub := matVec (B.mat a) VB
    let va := dot A.start ua
    let vb := dot B.start ub
    if va ≠ vb then .inl (a :: w, va, vb)
    else
      let q := projQ (ua ++ ub) basis
      if isZeroVec q then tzInner A B w VA VB as work basis
      else tzInner A B w VA VB as ((a :: w, ua, ub) :: work) (basis ++ [q])

/-- the `while worklist` loop; the head of `work` is the top of the stack. -/
def tzLoop (al : List σ) (A B : MAut σ K) :
    Nat → List (TzItem σ K) → List (Vec K) → Option (Option (List σ × K × K))
  | _, [], _ => some none
  | 0, _ :: _, _ => none
  | f + 1, (w, VA, VB) :: work, basis =>
    match tzInner A B w VA VB al work basis with
    | .inl c => some (some c)
    | .inr (work', basis') => tzLoop al A B f work' basis'

/-- `Simple.counterexample` with the alphabet iterated in the order `al`.
`some (some (w, va, vb))` = counterexample, `some none` = `None` (equivalent), `none` = out of fuel. -/
def tzSearch (al : List σ) (A B : MAut σ K) (fuel : Nat) : Option (Option (List σ × K × K)) :=
  let va := dot A.start A.stop
  let vb := dot B.start B.stop
  if va ≠ vb then some (some ([], va, vb))
  else
    let eta := A.stop ++ B.stop
    if isZeroVec eta then some none
    else tzLoop al A B fuel [([], A.stop, B.stop)] [eta]

/-- `Simple.counterexample` -/
def counterexampleQ (A B : MAut σ K) (fuel : Nat) : Option (Option (List σ × K × K)) :=
  tzSearch (A.diffSyms B) A B fuel

/-- `Simple.__eq__` (`none` = out of fuel) -/
def equivQ (A B : MAut σ K) (fuel : Nat) : Option Bool :=
  (counterexampleQ A B fuel).map Option.isNone

/-! ### `forward_basis` -/

/-- the `for a in self.arcs` loop of `forward_basis` for the popped vector `V` -/
def fbInner (n : Nat) (V : Vec K) :
    List (σ × Mat K) → List (Vec K) → List (Vec K) → List (Vec K) × List (Vec K)
  | [], work, basis => (work, basis)
  | (_, M) :: rest, work, basis =>
    let u := vecMat n V M
    let q := projQ u basis
    if isZeroVec q then fbInner n V rest work basis
    else fbInner n V rest (u :: work) (basis ++ [q])

def fbLoop (A : MAut σ K) : Nat → List (Vec K) → List (Vec K) → Option (List (Vec K))
  | _, [], basis => some basis
  | 0, _ :: _, _ => none
  | f + 1, V :: work, basis =>
    let r := fbInner A.dim V A.arcs work basis
    fbLoop A f r.1 r.2

/-- `Simple.forward_basis`: the rows of the returned matrix (`none` = out of fuel). -/
def forwardBasisQ (A : MAut σ K) (fuel : Nat) : Option (List (Vec K)) :=
  if isZeroVec A.start then some []
  else fbLoop A fuel [A.start] [A.start]

/-! ### `forward_conjugate`, `reverse`, `backward_conjugate`, `min`

`linalg.pinv(F)` is a library call; for a matrix `F` with pairwise orthogonal non-zero rows (which
is what `forward_basis` returns in exact arithmetic) the Moore–Penrose pseudo-inverse is
`Fᵀ (F Fᵀ)⁻¹ = Fᵀ diag(1 / (rᵢ · rᵢ))`, which is what `pinvRows` computes. -/

/-- `start · M_{a₁} ⋯ M_{aₙ}` (specification of the forward vectors) -/
def MAut.fwd (A : MAut σ K) (w : List σ) : Vec K :=
  w.foldl (fun v a => vecMat A.dim v (A.mat a)) A.start

/-- `M.T` for a matrix with `n` columns -/
def transposeM (n : Nat) (M : Mat K) : Mat K := (List.range n).map fun j => col j M

/-- pseudo-inverse of a matrix with `n` columns and orthogonal rows:
`P[i][j] = F[j][i] / (F[j] · F[j])` -/
def pinvRows (n : Nat) (F : Mat K) : Mat K :=
  (List.range n).map fun i => F.map fun r => r.getD i 0 / dot r r

/-- `Simple.reverse` -/
def MAut.reverse (A : MAut σ K) : MAut σ K where
  dim := A.dim
  start := A.stop
  arcs := A.arcs.map fun p => (p.1, transposeM A.dim p.2)
  stop := A.start

/-- `Simple.forward_conjugate` for a given forward basis `F` -/
def MAut.conjBy (A : MAut σ K) (F : Mat K) : MAut σ K :=
  let P := pinvRows A.dim F
  { dim := F.length
    start := vecMat F.length A.start P
    arcs := A.arcs.map fun p => (p.1, matMul F.length (matMul A.dim F p.2) P)
    stop := matVec F A.stop }

/-- `Simple.forward_conjugate` -/
def forwardConjQ (A : MAut σ K) (fuel : Nat) : Option (MAut σ K) :=
  (forwardBasisQ A fuel).map A.conjBy

/-- `Simple.backward_conjugate` -/
def backwardConjQ (A : MAut σ K) (fuel : Nat) : Option (MAut σ K) :=
  (forwardConjQ A.reverse fuel).map MAut.reverse

/-- `Simple.min` = `self.forward_conjugate().backward_conjugate()` -/
def minQ (A : MAut σ K) (fuel : Nat) : Option (MAut σ K) :=
  (forwardConjQ A fuel).bind fun A1 => backwardConjQ A1 fuel

end

end Genlm
