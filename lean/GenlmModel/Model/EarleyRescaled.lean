import GenlmModel.Model.EarleyQ
import GenlmModel.Model.Lm
/-!
Mirror model of `genlm/grammar/parse/earley_rescaled.py` (classes `Earley`, `Column`, `EarleyLM`), written as a
variant of the model of `parse/earley.py` (`Model/Earley.lean`, `Model/EarleyQ.lean`).  NO Mathlib.

What `earley_rescaled.py` changes with respect to `earley.py` (`diff` of the two files):

* `Column` has two more slots: `Q` (the agenda, a `LocatorMaxHeap`, created with the column and dropped after
  `next_column`; `_update(col, I, X, Ys, value)` pushes on `col.Q` instead of on a heap passed as an argument)
  and `rescale` (one coefficient per column).  Here: `RCol = ⟨col, rescale⟩`, the agenda is threaded through the
  loops exactly as in `Model/EarleyQ.lean` (`eUpdateQ`, `attachLoopQ` are reused unchanged).
* `__init__`: `_initial_column.rescale = R.one`.  Here the coefficient of column 0 is a parameter `ρ0`
  (`earleyRescaledChart` instantiates it with `1`).
* `next_column`, SCAN: the value passed to `_update` is `prev_col.i_chart[item] * prev_col.rescale`
  (`scanStepRQ`).  ATTACH and PREDICT are unchanged (no coefficient appears in them).
* `next_column`, after `PREDICT(next_col)`:
  ```python
  num = prev_col.c_chart.get((0, S), zero);  den = next_col.c_chart.get((0, S), zero)
  if den == 0 or num == 0: next_col.rescale = 1
  else:                    next_col.rescale = num / den * prev_col.rescale
  ```
  Here the coefficient is computed by a *policy* `pol prevCols nextCol`; `rescaleChoice` is the code's policy,
  `rescaleConst ρ` the policy "column `k` gets the prescribed coefficient `ρ k`" (an arbitrary sequence).
* `rescale(cols, I, K)` = product of `c.rescale for c in cols[I:K]` (`rescaleProd`);
  `__call__` returns `cols[N].c_chart.get((0, S), zero) / rescale(cols, 0, N)` (`earleyRCallQ`);
  new method `logp(x) = np.log(cols[N].c_chart.get((0,S), zero)) - sum(np.log(c.rescale) for c in cols[0:N])`
  (no special case for the empty string, unlike `__call__`): `earleyRLogpParts` returns the number whose log is
  taken and the list of coefficients whose logs are subtracted.
* the left-corner graph is `R = WeightedGraph(Boolean)` with an edge `head → body[0]` for *every* rule with a
  non-empty body — also when `body[0]` is a terminal (`earley.py` skips those); `PREDICT` walks
  `self.R.outgoing`: `lcOutR`, `lcLoopR`, `predReachR`, `predictR`.  (`targets`/`reachable` are Python sets;
  as in `Model/Earley.lean` the model enumerates them in insertion/discovery order.)  Terminals that become
  `reachable` contribute nothing (`rhs` has no entry for them): `predictR_eq_predict` in
  `Proofs/EarleyRescaledPredict.lean`.
* `next_token_weights`: the same loops, then `p = p.trim(); return p.normalize() if p else p`
  (`earleyRNextTokenWeights`); `EarleyLM.p_next` normalises once more (`earleyRLmPNext`).
  The coefficients are *not* undone here (comment in the code: "the rescaling coefficient will cancel out when we
  normalize").
-/
namespace Genlm
section
variable {σ K : Type} [DecidableEq σ] [Add K] [Mul K] [Zero K] [One K]

/-- `Column` of `earley_rescaled.py`: the column of `earley.py` and its `rescale` coefficient -/
structure RCol (σ K : Type) where
  col : ECol σ K
  rescale : K

/-- the value of `prev_cols[-1]` for an empty list (never used: a chart has at least the initial column) -/
def RCol.dflt : RCol σ K := ⟨ECol.empty 0, 1⟩

/-! ### `PREDICT` over the left-corner graph `R` (terminal left corners included) -/

/-- `self.R.outgoing[X]`: the left corners of the rules of `X` -/
def lcOutR (G : CFG σ K) (X : σ) : List σ :=
  (G.rules.filterMap fun r =>
    if r.head = X then
      match r.body with
      | B :: _ => some B
      | [] => none
    else none).eraseDups

/-- `while agenda: X = agenda.pop(); for Y in self.R.outgoing[X]: if Y not in reachable: …` -/
def lcLoopR (G : CFG σ K) : Nat → List σ → List σ → List σ
  | 0, _, R => R
  | _ + 1, [], R => R
  | fuel + 1, X :: agenda, R =>
    let new := (lcOutR G X).filter (fun Y => Y ∉ R)
    lcLoopR G fuel (new.reverse ++ agenda) (R ++ new)

/-- the set `reachable` of `PREDICT(col)`; fuel: every pop is either one of the initial targets or a left corner
that was new when pushed, and there are at most `|rules|` distinct left corners -/
def predReachR (G : CFG σ K) (col : ECol σ K) : List σ :=
  let agenda := if col.k = 0 then [G.S] else col.waitingKeys
  lcLoopR G (agenda.length + G.rules.length + 1) agenda.reverse agenda.eraseDups

/-- `PREDICT(col)` of `earley_rescaled.py` -/
def predictR (G : CFG σ K) (col : ECol σ K) : ECol σ K :=
  let k := col.k
  (predReachR G col).foldl (fun col X =>
    (rhsOf G X).foldl (fun col wYs => eUpdate col k X wYs.2 wYs.1) col) col

/-! ### `next_column` -/

/-- SCAN loop of `next_column`: `_update(next_col, I, X, rest_Ys[Ys], prev_col_i_chart[item] * prev_col.rescale)` -/
def scanStepRQ (prev : RCol σ K) (token : σ) (st : ECol σ K × List (Nat × σ)) : ECol σ K × List (Nat × σ) :=
  (prev.col.waitingFor token).foldl
    (fun st it => eUpdateQ st it.1 it.2.1 it.2.2.tail (prev.col.i_chart.get it * prev.rescale)) st

/-- `next_column(prev_cols, token)` before the final `PREDICT`: SCAN with the coefficient of the previous column,
then the ATTACH loop of `earley.py` (it only reads `i_chart`/`waiting_for` of the previous columns) -/
def nextColumnPreRQ (G : CFG σ K) (pick : List (Nat × σ) → Option ((Nat × σ) × List (Nat × σ)))
    (prevCols : List (RCol σ K)) (token : σ) : ECol σ K × List (Nat × σ) × List (Nat × σ) :=
  let prev := prevCols.getLastD RCol.dflt
  let st := scanStepRQ prev token (ECol.empty (prev.col.k + 1), [])
  attachLoopQ pick (prevCols.map (·.col)) ((schedCands G (prev.col.k + 1)).length + 1) st.1 [] st.2

/-- how `next_column` chooses `next_col.rescale`, from the previous columns and the finished new column -/
abbrev RescalePolicy (σ K : Type) := List (RCol σ K) → ECol σ K → K

/-- `next_column(prev_cols, token)` -/
def nextColumnRQ (G : CFG σ K) (pick : List (Nat × σ) → Option ((Nat × σ) × List (Nat × σ)))
    (pol : RescalePolicy σ K) (prevCols : List (RCol σ K)) (token : σ) : RCol σ K :=
  let c := predictR G (nextColumnPreRQ G pick prevCols token).1
  ⟨c, pol prevCols c⟩

/-- an arbitrary prescribed sequence of coefficients: column `k = len(prev_cols)` gets `ρ k` -/
def rescaleConst (ρ : Nat → K) : RescalePolicy σ K := fun prevCols _ => ρ prevCols.length

/-- the choice of the code:
`num = prev_col.c_chart.get((0,S), 0); den = next_col.c_chart.get((0,S), 0);`
`rescale = 1 if den == 0 or num == 0 else num / den * prev_col.rescale` -/
def rescaleChoice [Div K] [DecidableEq K] (G : CFG σ K) : RescalePolicy σ K := fun prevCols next =>
  let prev := prevCols.getLastD RCol.dflt
  let num := prev.col.c_chart.get (0, G.S)
  let den := next.c_chart.get (0, G.S)
  if den = 0 ∨ num = 0 then 1 else num / den * prev.rescale

/-! ### `chart`, `rescale`, `__call__`, `logp` -/

/-- `self._initial_column` (its coefficient `ρ0` is `R.one` in the code) -/
def earleyRInit (G : CFG σ K) (ρ0 : K) : RCol σ K := ⟨predictR G (ECol.empty 0), ρ0⟩

/-- `next_column` as a function of the chart and the token; `pick k` pops the agenda of column `k` -/
def earleyRExtQ (G : CFG σ K) (pick : Nat → List (Nat × σ) → Option ((Nat × σ) × List (Nat × σ)))
    (pol : RescalePolicy σ K) (cols : List (RCol σ K)) (token : σ) : RCol σ K :=
  nextColumnRQ G (pick ((cols.getLastD RCol.dflt).col.k + 1)) pol cols token

/-- `Earley.chart(x)` of `earley_rescaled.py` (the memo table `self._chart` is the `chartM` of `Model/Memo.lean`) -/
def earleyRChartQ (G : CFG σ K) (pick : Nat → List (Nat × σ) → Option ((Nat × σ) × List (Nat × σ)))
    (ρ0 : K) (pol : RescalePolicy σ K) (x : List σ) : List (RCol σ K) :=
  pureChart (earleyRInit G ρ0) (earleyRExtQ G pick pol) x

/-- `self.rescale(cols, I, K)`: `C = one; for c in cols[I:K]: C *= c.rescale` -/
def rescaleProd (cols : List (RCol σ K)) (I J : Nat) : K :=
  ((cols.drop I).take (J - I)).foldl (fun C c => C * c.rescale) 1

/-- `Earley.__call__(x)` of `earley_rescaled.py` -/
def earleyRCallQ [Div K] (G : CFG σ K) (pick : Nat → List (Nat × σ) → Option ((Nat × σ) × List (Nat × σ)))
    (ρ0 : K) (pol : RescalePolicy σ K) (x : List σ) : K :=
  if x.length = 0 then earleyNullary G
  else
    let cols := earleyRChartQ G pick ρ0 pol x
    (cols.getD x.length RCol.dflt).col.c_chart.get (0, G.S) / rescaleProd cols 0 x.length

/-- `Earley.logp(x) = log a - Σ_{c ∈ l} log c` for `(a, l) = earleyRLogpParts … x`
(`a = cols[N].c_chart.get((0,S), zero)`, `l = [c.rescale for c in cols[0:N]]`) -/
def earleyRLogpParts (G : CFG σ K) (pick : Nat → List (Nat × σ) → Option ((Nat × σ) × List (Nat × σ)))
    (ρ0 : K) (pol : RescalePolicy σ K) (x : List σ) : K × List K :=
  let cols := earleyRChartQ G pick ρ0 pol x
  ((cols.getD x.length RCol.dflt).col.c_chart.get (0, G.S), ((cols.drop 0).take (x.length - 0)).map (·.rescale))

/-! ### the parser as the code instantiates it -/

/-- `Earley.chart(x)`: initial coefficient `one`, coefficients chosen by `rescaleChoice` -/
def earleyRescaledChart [Div K] [DecidableEq K] (G : CFG σ K)
    (pick : Nat → List (Nat × σ) → Option ((Nat × σ) × List (Nat × σ))) (x : List σ) : List (RCol σ K) :=
  earleyRChartQ G pick 1 (rescaleChoice G) x

/-- `Earley.__call__(x)` -/
def earleyRescaledCall [Div K] [DecidableEq K] (G : CFG σ K)
    (pick : Nat → List (Nat × σ) → Option ((Nat × σ) × List (Nat × σ))) (x : List σ) : K :=
  earleyRCallQ G pick 1 (rescaleChoice G) x

/-! ### `next_token_weights`, `EarleyLM.p_next` -/

/-- `Chart.trim`: the entries `!= zero` -/
def trimChart {τ : Type} [DecidableEq K] (q : List (τ × K)) : List (τ × K) := q.filter fun e => e.2 ≠ 0

/-- `next_token_weights(cols)` of `earley_rescaled.py`: the loops of `earley.py` on the (rescaled) columns, then
`p = p.trim(); return p.normalize() if p else p` -/
def earleyRNextTokenWeights [Div K] [DecidableEq K] (G : CFG σ K) (fuel : Nat) (cols : List (RCol σ K)) :
    PyChart σ K :=
  let p := trimChart (earleyNextTokenWeights G fuel (cols.map (·.col)))
  if p.isEmpty then p else normalize p

/-- `EarleyLM.p_next(context) = self.model.next_token_weights(self.model.chart(context)).normalize()` -/
def earleyRLmPNext [Div K] [DecidableEq K] (G : CFG σ K) (order : σ → Nat)
    (pick : Nat → List (Nat × σ) → Option ((Nat × σ) × List (Nat × σ)))
    (ρ0 : K) (pol : RescalePolicy σ K) (c : List σ) : PyChart σ K :=
  let cols := earleyRChartQ G pick ρ0 pol c
  normalize (earleyRNextTokenWeights G (helperFuel G order (cols.map (·.col))) cols)

/-- `EarleyLM.p_next(context)` as the code instantiates the parser -/
def earleyRescaledLmPNext [Div K] [DecidableEq K] (G : CFG σ K) (order : σ → Nat)
    (pick : Nat → List (Nat × σ) → Option ((Nat × σ) × List (Nat × σ))) (c : List σ) : PyChart σ K :=
  earleyRLmPNext G order pick 1 (rescaleChoice G) c

end
end Genlm
