import GenlmModel.Model.FstOps
import GenlmModel.Model.Transform
import GenlmModel.Model.Horn
import GenlmModel.Model.Mask
/-! Executable mirror model of `CFG.__matmul__` (`genlm/grammar/cfg.py`): the composition of a
weighted grammar with a weighted transducer (weighted Bar-Hillel construction with the ε handling of
the library), and of its helper `CFG._compose_bottom_up_epsilon`.

Python names the symbols of the composed grammar by tuples `(i, X, j)` (state, symbol, state) next to
the output symbols of the transducer, the namedtuple `Other(S)` and the old start symbol `S` (re-used
as the new start symbol).  The model keeps these four kinds apart *by construction* (`CSym`): a
grammar whose symbols collide with these names is outside the model.

* `composeAll G T` — the construction WITHOUT the pruning by the item set `C` (every state tuple);
* `composeItems G T` — the least set of supported items `(i, X, j)` (`hlfp` on the item clauses whose
  least fixed point the agenda of `_compose_bottom_up_epsilon` computes);
* `compose G T` — what Python builds: the rules produced by `join` are restricted to supported items,
  and `CFG.add` drops zero-weight rules.  -/
namespace Genlm

/-- the middle component of a triple `(i, X, j)`: a grammar symbol, Python's `EPSILON` (used as a body
symbol by the special rules and as the input label of ε-arcs) or `Other(S)` -/
inductive CX (σ : Type) where
  | sym (s : σ)
  | eps
  | other
deriving DecidableEq, Repr

/-- symbols of the composed grammar: output terminals, triples, the start symbol -/
inductive CSym (ι σ : Type) where
  | term (b : σ)
  | item (i : ι) (x : CX σ) (j : ι)
  | start
deriving DecidableEq, Repr

def CSym.isItem {ι σ : Type} : CSym ι σ → Bool
  | .item _ _ _ => true
  | _ => false

section
variable {ι σ K : Type} [DecidableEq ι] [DecidableEq σ]

/-- an input label as the middle component of a triple (`ε` is Python's `EPSILON`) -/
def CX.ofLabel : Option σ → CX σ
  | none => .eps
  | some a => .sym a

/-- Python's `join(start, Ys)` with `C` = all state tuples: every expansion
`(s_0, Y_1, s_1) … (s_{k-1}, Y_k, s_k)` from `s_0 = s`, together with its last state `s_k` -/
def joinAll (states : List ι) : ι → List (CX σ) → List (List (CSym ι σ) × ι)
  | s, [] => [([], s)]
  | s, Y :: Ys => states.flatMap fun k =>
      (joinAll states k Ys).map fun p => (CSym.item s Y k :: p.1, p.2)

/-- the rules of the grammar over the middle components -/
def liftRules (G : CFG σ K) : List (Rule (CX σ) K) :=
  G.rules.map fun r => ⟨r.w, .sym r.head, r.body.map .sym⟩

/-- `special_rules`: `a → ε a` for every terminal (Python's `V` is a set), `Other(S) → S`,
`Other(S) → Other(S) ε` -/
def specialRules [One K] (G : CFG σ K) : List (Rule (CX σ) K) :=
  (G.V.eraseDups.map fun a => (⟨1, .sym a, [.eps, .sym a]⟩ : Rule (CX σ) K)) ++
    [⟨1, .other, [.sym G.S]⟩, ⟨1, .other, [.other, .eps]⟩]

/-- `itertools.chain(self, special_rules)` -/
def xRules [One K] (G : CFG σ K) : List (Rule (CX σ) K) := liftRules G ++ specialRules G

/-- all the rules `(s_0, X, s_k) → (s_0, Y_1, s_1) … (s_{k-1}, Y_k, s_k)` of one rule `X → Y_1 … Y_k`
(for `k = 0`: `(s, X, s) → ε` for every state `s`) -/
def expandRule (states : List ι) (r : Rule (CX σ) K) : List (Rule (CSym ι σ) K) :=
  states.flatMap fun s => (joinAll states s r.body).map fun p => ⟨r.w, .item s r.head p.2, p.1⟩

/-- `S → (i, Other(S), k)` with weight `wi * wf` -/
def startRules [Mul K] (T : FST ι σ K) : List (Rule (CSym ι σ) K) :=
  T.start.flatMap fun s => T.stop.map fun f => ⟨s.2 * f.2, .start, [.item s.1 .other f.1]⟩

/-- the body of an arc rule: the output label, nothing for ε -/
def outBody : Option σ → List (CSym ι σ)
  | none => []
  | some b => [.term b]

/-- `(i, a, j) → b`, or `(i, a, j) → ε` when the output label is ε; the input label may be ε -/
def arcRules (T : FST ι σ K) : List (Rule (CSym ι σ) K) :=
  T.arcs.map fun e => ⟨e.w, .item e.src (CX.ofLabel e.inp) e.dst, outBody e.out⟩

/-- the rules obtained from the grammar rules and the special rules, over all state tuples -/
def expandedRules [One K] (G : CFG σ K) (T : FST ι σ K) : List (Rule (CSym ι σ) K) :=
  (xRules G).flatMap (expandRule T.states)

/-- the terminals of the composed grammar: `fst.B - {EPSILON}` -/
def composeV (T : FST ι σ K) : List (CSym ι σ) := T.outSyms.map .term

/-- `G @ T` without the restriction to supported items -/
def composeAll [Mul K] [One K] (G : CFG σ K) (T : FST ι σ K) : CFG (CSym ι σ) K where
  S := .start
  V := composeV T
  rules := expandedRules G T ++ startRules T ++ arcRules T

/-- the item clauses: an item is supported as soon as the items of one of its rules are (arcs and
nullary rules are the base cases of `_compose_bottom_up_epsilon`) -/
def itemClauses [One K] (G : CFG σ K) (T : FST ι σ K) : List (Clause (CSym ι σ)) :=
  (expandedRules G T ++ arcRules T).map fun r => ⟨r.body.filter CSym.isItem, r.head⟩

/-- the complete items `C` of `_compose_bottom_up_epsilon`: the least supported set -/
def composeItems [One K] (G : CFG σ K) (T : FST ι σ K) : List (CSym ι σ) := hlfp (itemClauses G T)

/-- `G @ T` as Python builds it: `join` only enumerates supported items, the start rules and the arc
rules are added unconditionally, `CFG.add` drops zero weights -/
def compose [Mul K] [One K] [Zero K] [DecidableEq K] (G : CFG σ K) (T : FST ι σ K) :
    CFG (CSym ι σ) K where
  S := .start
  V := composeV T
  rules := mkRules (((expandedRules G T).filter fun r => r.body.all (· ∈ composeItems G T))
    ++ startRules T ++ arcRules T)

end

/-! ### finite weighted languages: the yields of the derivation trees of bounded height

Used to state sums over *all* input strings without a candidate list:
`Σ_x WN G n X x * φ x = wsum (yields G n X) φ` (`yields_sum` in `Proofs/ComposeCore.lean`). -/
section
variable {σ K : Type} [DecidableEq σ] [Add K] [Mul K] [Zero K] [One K]

/-- `Σ_{(x, w) ∈ ℓ} w * φ x` -/
def wsum (l : List (List σ × K)) (φ : List σ → K) : K := lsum (l.map fun p => p.2 * φ p.1)

/-- concatenation product of two weighted languages -/
def lcat (l1 l2 : List (List σ × K)) : List (List σ × K) :=
  l1.flatMap fun p => l2.map fun q => (p.1 ++ q.1, p.2 * q.2)

/-- the weighted language of a body, given those of its symbols -/
def lbody (m : σ → List (List σ × K)) : List σ → List (List σ × K)
  | [] => [([], 1)]
  | Y :: Ys => lcat (m Y) (lbody m Ys)

/-- one entry `(yield, weight)` per derivation tree of height ≤ `n` from `X`
(`WN G n X x` is the total weight of the entries with yield `x`: `yields_WN`) -/
def yields (G : CFG σ K) : Nat → σ → List (List σ × K)
  | 0, _ => []
  | n+1, X => (G.rules.filter (fun r => r.head = X)).flatMap fun r =>
      (lbody (fun Y => if Y ∈ G.V then [([Y], 1)] else yields G n Y) r.body).map fun p =>
        (p.1, r.w * p.2)

/-- the longest yield of a derivation tree of height ≤ `n` from `X` -/
def yieldLen (G : CFG σ K) (n : Nat) (X : σ) : Nat :=
  ((yields G n X).map fun p => p.1.length).foldr max 0

end

section
variable {ι σ K : Type} [DecidableEq ι] [DecidableEq σ]
/-- `compose` with the supported-item set computed ONCE and by the fast fixpoint engine `hlfpFast`
(what the driver runs; equal to `compose`: `composeShared_eq`) -/
def composeShared [Mul K] [One K] [Zero K] [DecidableEq K] (G : CFG σ K) (T : FST ι σ K) :
    CFG (CSym ι σ) K :=
  let items := hlfpFast (itemClauses G T)
  { S := .start, V := composeV T,
    rules := mkRules (((expandedRules G T).filter fun r => r.body.all (· ∈ items))
      ++ startRules T ++ arcRules T) }
end

end Genlm
