import GenlmModel.Model.WfsaOps2
/-! Mirror model of `WFSA.determinize` (`genlm/grammar/wfsa/base.py`): Mohri's weighted subset
construction.  Python first executes `self = self.epsremove.push`; the model is the rest of the
method, applied to an arbitrary machine `A` (the theorems assume `A.EpsFree`).

Representation.  A state of the result is a *weighted subset*: Python's `frozendict {q: w}`.
`frozendict` equality ignores the insertion order, so the model keeps a weighted subset as an
association list with distinct keys in the canonical order of `A.states` (`canonChart`): equal
dictionaries are equal lists.  As in Python a key may carry the weight zero (every target `j` that
has been touched by `U[a][j] += u * v` is a key); only the initial subset filters zeros (`self.I`).

`_powerarcs(Q)`: for every symbol `a` of `self.alphabet` the chart `R = U[a]`, its mass
`W = sum(R.values())` (the model sums with `lsum`, a right fold; Python's `sum` is a left fold from
`zero` — equal in a semiring), the successor `{p: W⁻¹ * R[p]}` and the arc weight `W`.
*Division by zero.*  The comprehension `{p: W ** (-1) * R[p] for p in R}` evaluates `W ** (-1)` once
per key of `R`: if `R` is empty no division happens and Python emits the arc `Q -a/0-> {}` to the
empty subset (a dead state); if `R` is non-empty and `W = 0` Python raises `ZeroDivisionError`
and there is no result.  The model reports this as the outcome `zeroDiv` (`determinizeN = none`).

The worklist: `stack` (a Python list used as a stack: head of the model list = top), `visited`
(a set: a list without repetitions), and `done` (the popped subsets, i.e. the sources of the arcs
that have been added to `D`).  `fuel` bounds the number of pops (the Python loop need not terminate).
The final loop `for Q in D.states: for q in Q: D.add_F(Q, Q[q] * self.stop[q])` gives `stop`
(repeated keys mean the sum, as everywhere); `D.states` is exactly `visited`. -/
namespace Genlm

/-- result of running the determinisation loop with bounded fuel -/
inductive DetOutcome (α : Type) where
  | done (r : α)
  | outOfFuel
  | zeroDiv
deriving Repr

section
variable {ι σ K : Type} [DecidableEq ι] [DecidableEq σ] [DecidableEq K]
  [Add K] [Mul K] [Zero K] [One K]

/-- a chart in canonical form: its keys in the order of `A.states`, each with its accumulated weight -/
def canonChart (A : WFSA ι σ K) (l : List (ι × K)) : List (ι × K) :=
  (A.states.filter fun p => p ∈ l.map (·.1)).map fun p => (p, wlook l p)

/-- `Q = frozendict({i: w for i, w in self.I})`: the accumulated non-zero initial weights -/
def initSubset (A : WFSA ι σ K) : List (ι × K) :=
  (A.states.filter fun i => wlook A.start i ≠ 0).map fun i => (i, wlook A.start i)

/-- the updates `U[a][j] += u * v` of `_powerarcs(Q)` for the symbol `a`, in execution order -/
def powerRaw (A : WFSA ι σ K) (Q : List (ι × K)) (a : σ) : List (ι × K) :=
  Q.flatMap fun q =>
    (A.arcs.filter fun e => e.src = q.1 ∧ e.lbl = some a).map fun e => (e.dst, q.2 * e.w)

/-- the chart `R = U[a]` -/
def powerChart (A : WFSA ι σ K) (Q : List (ι × K)) (a : σ) : List (ι × K) :=
  canonChart A (powerRaw A Q a)

/-- `W = sum(R.values(), start=self.R.zero)` -/
def powerMass (A : WFSA ι σ K) (Q : List (ι × K)) (a : σ) : K :=
  lsum ((powerChart A Q a).map (·.2))

/-- what `_powerarcs(Q)` yields for the symbol `a`: the successor subset
`{p: W ** (-1) * R[p] for p in R}` and the weight `W` -/
def powerArc (inv : K → K) (A : WFSA ι σ K) (Q : List (ι × K)) (a : σ) : List (ι × K) × K :=
  ((powerChart A Q a).map fun p => (p.1, inv (powerMass A Q a) * p.2), powerMass A Q a)

/-- Python raises `ZeroDivisionError`: `R` has a key and `W = 0` -/
def powerFails (A : WFSA ι σ K) (Q : List (ι × K)) (a : σ) : Bool :=
  !(powerChart A Q a).isEmpty && decide (powerMass A Q a = 0)

/-- `for a, Q, w in _powerarcs(P): if Q not in visited: stack.append(Q); visited.add(Q)`
over the symbols `as`; `none` when `_powerarcs` raises -/
def detInner (inv : K → K) (A : WFSA ι σ K) (P : List (ι × K)) :
    List σ → List (List (ι × K)) → List (List (ι × K)) →
      Option (List (List (ι × K)) × List (List (ι × K)))
  | [], stack, vis => some (stack, vis)
  | a :: as, stack, vis =>
    if powerFails A P a then none
    else if (powerArc inv A P a).1 ∈ vis then detInner inv A P as stack vis
    else detInner inv A P as ((powerArc inv A P a).1 :: stack) ((powerArc inv A P a).1 :: vis)

/-- `while stack: P = stack.pop(); ...` with at most `fuel` pops; returns `(visited, done)` -/
def detLoop (inv : K → K) (A : WFSA ι σ K) :
    Nat → List (List (ι × K)) → List (List (ι × K)) → List (List (ι × K)) →
      DetOutcome (List (List (ι × K)) × List (List (ι × K)))
  | _, [], vis, done => .done (vis, done)
  | 0, _ :: _, _, _ => .outOfFuel
  | n+1, P :: stack, vis, done =>
    match detInner inv A P A.labels stack vis with
    | none => .zeroDiv
    | some sv => detLoop inv A n sv.1 sv.2 (P :: done)

/-- the arc `D.add_arc(P, a, Q, w)` -/
def detArc (inv : K → K) (A : WFSA ι σ K) (P : List (ι × K)) (a : σ) : Arc (List (ι × K)) σ K :=
  ⟨P, some a, (powerArc inv A P a).1, (powerArc inv A P a).2⟩

/-- the machine `D` once the loop has ended with the states `vis`, all of them popped (`done`) -/
def detBuild (inv : K → K) (A : WFSA ι σ K) (vis done : List (List (ι × K))) :
    WFSA (List (ι × K)) σ K where
  start := [(initSubset A, 1)]
  stop := vis.flatMap fun Q => Q.map fun q => (Q, q.2 * wlook A.stop q.1)
  arcs := done.flatMap fun P => A.labels.map fun a => detArc inv A P a

/-- `WFSA.determinize` (after `self = self.epsremove.push`) with at most `fuel` iterations of the
`while` loop -/
def determinizeRun (inv : K → K) (A : WFSA ι σ K) (fuel : Nat) :
    DetOutcome (WFSA (List (ι × K)) σ K) :=
  match detLoop inv A fuel [initSubset A] [initSubset A] [] with
  | .done vd => .done (detBuild inv A vd.1 vd.2)
  | .outOfFuel => .outOfFuel
  | .zeroDiv => .zeroDiv

/-- `some D` iff the loop ends normally within `fuel` iterations -/
def determinizeN (inv : K → K) (A : WFSA ι σ K) (fuel : Nat) : Option (WFSA (List (ι × K)) σ K) :=
  match determinizeRun inv A fuel with
  | .done D => some D
  | _ => none

/-- the run of the subset construction on a word: the subset reached and the weight accumulated -/
def subsetRun (inv : K → K) (A : WFSA ι σ K) (u : List σ) : List (ι × K) × K :=
  u.foldl (fun s a => ((powerArc inv A s.1 a).1, s.2 * (powerArc inv A s.1 a).2)) (initSubset A, 1)

/-- no step of the run divides by zero -/
def subsetRunOk (A : WFSA ι σ K) (inv : K → K) : List (ι × K) → List σ → Bool
  | _, [] => true
  | Q, a :: u => !powerFails A Q a && subsetRunOk A inv (powerArc inv A Q a).1 u

end
end Genlm
