import GenlmModel.Model.Basic
/-! Mirror models of `genlm/grammar/cfg.py` and `cfglm.py` (pure functions; mutable Python state
such as the `_gen_nt` counter is an explicit argument). -/
namespace Genlm
section
variable {σ K : Type} [DecidableEq σ] [Add K] [Mul K] [Zero K] [One K]

/-- `separate_start` when a new start symbol is needed: `S' → S` with weight one in front of the old rules. -/
def sepStart (G : CFG σ K) (S' : σ) : CFG σ K :=
  { S := S', V := G.V, rules := ⟨1, S', [G.S]⟩ :: G.rules }

/-- `add_EOS` -/
def addEOS (G : CFG σ K) (S' eos : σ) : CFG σ K :=
  { S := S', V := eos :: G.V, rules := ⟨1, S', [G.S, eos]⟩ :: G.rules }

/-- per-rule contribution in the CKY recurrence (`_parse_chart`): nullary / preterminal / sum over
splits into two *non-empty* parts -/
def ruleTerm (f : List σ → σ → K) (r : Rule σ K) (x : List σ) : K :=
  match r.body with
  | [] => if x = [] then 1 else 0
  | [a] => if x = [a] then 1 else 0
  | [B, C] => lsum (((splits x).filter (fun p => p.1 ≠ [] ∧ p.2 ≠ [])).map fun p => f p.1 B * f p.2 C)
  | _ => 0

/-- CKY recurrence with fuel in place of the memo table; chart entry `c[i,X,k]` of `_parse_chart`
is `insN G (k-i+1) xs[i:k] X` -/
def insN (G : CFG σ K) : Nat → List σ → σ → K
  | 0, _, _ => 0
  | n+1, x, X => lsum ((G.rules.filter (fun r => r.head = X)).map fun r => r.w * ruleTerm (insN G n) r x)

end
end Genlm
