import GenlmModel.Model.Wfsa
/-! Executable mirror models of `genlm/grammar/wfsa/base.py` (class `WFSA`):
`__call__` (the loop after `epsremove`), `reverse`, `rename`, `__add__`, `__mul__`, `kleene_plus`,
`lift`, `from_string`, `zero`; plus a dynamic-programming evaluator `PNtab` of the stratified
specification `PN` (machines with ε arcs and cycles).

Representation remarks (see `Model/Wfsa.lean`): `start`, `stop`, `arcs` are lists whose
repeated keys mean the sum (Python's charts accumulate with `+=`).  Python's `I`/`F` skip entries
whose accumulated weight is `R.zero`; the models keep them (they contribute `0` to every path sum
and the model functions only assume `[Add K] [Mul K] [Zero K] [One K]`, no decidable equality
on `K`).  `rename_apart` (an `Integerizer` over the tagged pairs `(0,i)`, `(1,i)`) is modelled
by the injections `Sum.inl` / `Sum.inr`. -/
namespace Genlm

section
variable {ι κ σ K : Type}

/-- `WFSA.rename f` -/
def WFSA.mapStates (f : ι → κ) (A : WFSA ι σ K) : WFSA κ σ K where
  start := A.start.map fun s => (f s.1, s.2)
  stop := A.stop.map fun s => (f s.1, s.2)
  arcs := A.arcs.map fun e => ⟨f e.src, e.lbl, f e.dst, e.w⟩

/-- `WFSA.reverse`: flip every arc, exchange initial and final weights -/
def WFSA.reverse (A : WFSA ι σ K) : WFSA ι σ K where
  start := A.stop
  stop := A.start
  arcs := A.arcs.map fun e => ⟨e.dst, e.lbl, e.src, e.w⟩

/-- `WFSA.__add__` (after `rename_apart`) -/
def WFSA.union (A : WFSA ι σ K) (B : WFSA κ σ K) : WFSA (ι ⊕ κ) σ K where
  start := (A.mapStates Sum.inl).start ++ (B.mapStates Sum.inr).start
  stop := (A.mapStates Sum.inl).stop ++ (B.mapStates Sum.inr).stop
  arcs := (A.mapStates Sum.inl).arcs ++ (B.mapStates Sum.inr).arcs

/-- `WFSA.zero`: the machine without states -/
def WFSA.zero : WFSA ι σ K := ⟨[], [], []⟩

/-- the ε arcs `f --ε/(wf*ws)--> s` for every final entry `(f,wf)` and initial entry `(s,ws)`:
the double loop at the end of `__mul__` and `kleene_plus` -/
def bridge [Mul K] (F S : List (ι × K)) : List (Arc ι σ K) :=
  F.flatMap fun f => S.map fun s => ⟨f.1, none, s.1, f.2 * s.2⟩

/-- `WFSA.__mul__` (after `rename_apart`): initial weights of `A`, arcs of both, final weights of
`B`, and the ε bridge from the final states of `A` to the initial states of `B` -/
def WFSA.concat [Mul K] (A : WFSA ι σ K) (B : WFSA κ σ K) : WFSA (ι ⊕ κ) σ K where
  start := (A.mapStates Sum.inl).start
  stop := (B.mapStates Sum.inr).stop
  arcs := (A.mapStates Sum.inl).arcs ++ (B.mapStates Sum.inr).arcs ++
    bridge (A.mapStates Sum.inl).stop (B.mapStates Sum.inr).start

/-- `WFSA.kleene_plus` -/
def WFSA.kleenePlus [Mul K] (A : WFSA ι σ K) : WFSA ι σ K where
  start := A.start
  stop := A.stop
  arcs := A.arcs ++ bridge A.stop A.start

/-- `WFSA.lift x w`: states `0`, `1` -/
def WFSA.lift [One K] (a : Option σ) (w : K) : WFSA Nat σ K where
  start := [(0, 1)]
  stop := [(1, 1)]
  arcs := [⟨0, a, 1, w⟩]

/-- `WFSA.from_string xs R w`: the states are the prefixes `xs[:i]` -/
def WFSA.fromString [One K] (x : List σ) (w : K) : WFSA (List σ) σ K where
  start := [(x.take 0, 1)]
  stop := [(x, w)]
  arcs := (List.range x.length).flatMap fun i =>
    match x[i]? with
    | some a => [⟨x.take i, some a, x.take (i+1), 1⟩]
    | none => []

end

section
variable {ι σ K : Type} [DecidableEq ι] [DecidableEq σ] [Add K] [Mul K] [Zero K] [One K]

/-- all states mentioned by the machine (Python's `self.states`), without repetitions -/
def WFSA.states (A : WFSA ι σ K) : List ι :=
  (A.start.map (·.1) ++ A.stop.map (·.1) ++ A.arcs.flatMap fun e => [e.src, e.dst]).eraseDups

/-- normalise an association list to a chart: one entry per key, carrying the accumulated weight -/
def accum (l : List (ι × K)) : List (ι × K) :=
  ((l.map (·.1)).eraseDups).map fun i => (i, wlook l i)

/-- one iteration of the loop of `WFSA.__call__`:
`for i in prev: for j, w in self.arcs(i, a): curr[j] += prev[i] * w` -/
def fwdStep (A : WFSA ι σ K) (prev : List (ι × K)) (a : σ) : List (ι × K) :=
  accum (prev.flatMap fun p =>
    (A.arcs.filter fun e => e.src = p.1 ∧ e.lbl = some a).map fun e => (e.dst, p.2 * e.w))

/-- the chart `prev` after reading `x` -/
def fwdChart (A : WFSA ι σ K) (prev : List (ι × K)) (x : List σ) : List (ι × K) :=
  x.foldl (fwdStep A) prev

/-- `total = Σ_{(j,w) ∈ F} prev[j] * w` -/
def fwdStop (A : WFSA ι σ K) (prev : List (ι × K)) : K :=
  lsum (A.stop.map fun f => wlook prev f.1 * f.2)

/-- `WFSA.__call__` on a machine without ε arcs (i.e. the body of `__call__` once
`self = self.epsremove` has been executed) -/
def forward (A : WFSA ι σ K) (x : List σ) : K := fwdStop A (fwdChart A A.start x)

/-! ### dynamic programme for `PN` (ε arcs and cycles allowed)

`B k i p = Σ_f Qk A k i (x.drop p) f.1 * f.2`, tabulated over `states × {0..|x|}` and iterated on `k`;
`PNtab` accumulates `Σ_s s.2 * B k s.1 0` for `k = 0..n`. -/

abbrev PTab (ι K : Type) := List ((ι × Nat) × K)

def PTab.get (t : PTab ι K) (i : ι) (p : Nat) : K :=
  match t.find? (fun e => e.1 = (i, p)) with
  | some e => e.2
  | none => 0

def pnKeys (A : WFSA ι σ K) (x : List σ) : List (ι × Nat) :=
  A.states.flatMap fun i => (List.range (x.length + 1)).map fun p => (i, p)

/-- exactly `0` arcs: accept iff the whole input has been consumed -/
def pnInitAt (A : WFSA ι σ K) (x : List σ) (i : ι) (p : Nat) : K :=
  if x.length ≤ p then wlook A.stop i else 0

/-- one more leading arc, reading from position `p` of `x` -/
def pnStepAt (A : WFSA ι σ K) (x : List σ) (g : ι → Nat → K) (i : ι) (p : Nat) : K :=
  lsum ((A.arcs.filter (fun e => e.src = i)).map fun e =>
    match e.lbl with
    | none => e.w * g e.dst p
    | some a =>
      match x[p]? with
      | none => 0
      | some b => if a = b then e.w * g e.dst (p+1) else 0)

def pnInit (A : WFSA ι σ K) (x : List σ) (keys : List (ι × Nat)) : PTab ι K :=
  keys.map fun k => (k, pnInitAt A x k.1 k.2)

def pnStep (A : WFSA ι σ K) (x : List σ) (keys : List (ι × Nat)) (t : PTab ι K) : PTab ι K :=
  keys.map fun k => (k, pnStepAt A x t.get k.1 k.2)

/-- accepting mass recorded in a table: `Σ_s s.2 * t[s.1, 0]` -/
def pnAcc (A : WFSA ι σ K) (t : PTab ι K) : K := lsum (A.start.map fun s => s.2 * t.get s.1 0)

def pnLoop (A : WFSA ι σ K) (x : List σ) (keys : List (ι × Nat)) : Nat → PTab ι K → K
  | 0, t => pnAcc A t
  | n+1, t => pnAcc A t + pnLoop A x keys n (pnStep A x keys t)

/-- `PN A n x` in time polynomial in `n`, `|x|`, `|arcs|`, `|states|` -/
def PNtab (A : WFSA ι σ K) (n : Nat) (x : List σ) : K :=
  pnLoop A x (pnKeys A x) n (pnInit A x (pnKeys A x))

end
end Genlm
