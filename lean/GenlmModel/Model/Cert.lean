/-! Certificate checkers for the linear-algebra part of `genlm/grammar/wfsa/field_wfsa.py`
(`Simple.counterexample` / `Simple.__eq__` — Tzeng's equivalence test — and `Simple.min`).

The Python code works in floating point; it is *not* modelled here.  Instead this file defines exact
checkers for certificates (over any ring with decidable equality, in practice `ℚ`):

* `zeroCertCheck C cert`   — `cert` is a spanning set `U` of a subspace containing `C.stop`, closed
  under every `M_a`, and orthogonal to `C.start`; hence `C` has weight `0` on every word.
* `equivCertCheck A B cert` — the same for the difference automaton `A.diff B`; hence `A ≡ B`.
* `rankLowerCheck A us vs inv` — an invertible `k × k` block of the Hankel matrix of `A`; hence
  every automaton equivalent to `A` has at least `k` states (minimality certificate).

Soundness is proved in `Proofs/Cert.lean`.  No Mathlib.  Vectors are lists, matrices are lists of
rows.  An ε-free weighted automaton of dimension `d` is `(start, (M_a)_a, stop)` and the weight of
`a₁…aₙ` is `start · M_{a₁} ⋯ M_{aₙ} · stop` (exactly the commented-out `Simple.__call__`, with the
convention of `Simple.counterexample` that a symbol without a matrix has the zero matrix). -/
namespace Genlm

abbrev Vec (K : Type) := List K
/-- list of rows -/
abbrev Mat (K : Type) := List (List K)

section
variable {K : Type} [Add K] [Mul K] [Zero K]

/-- inner product (truncating to the shorter argument) -/
def dot : Vec K → Vec K → K
  | x :: xs, y :: ys => x * y + dot xs ys
  | _, _ => 0

/-- `M · v` -/
def matVec (M : Mat K) (v : Vec K) : Vec K := M.map fun r => dot r v

def vzero (n : Nat) : Vec K := List.replicate n 0

def vadd : Vec K → Vec K → Vec K
  | x :: xs, y :: ys => (x + y) :: vadd xs ys
  | _, _ => []

def smul (c : K) (v : Vec K) : Vec K := v.map fun x => c * x

/-- `Σᵢ csᵢ • usᵢ` in dimension `n` (the dimension is needed for the empty combination);
surplus coefficients or vectors are ignored. -/
def linComb (n : Nat) : List K → List (Vec K) → Vec K
  | c :: cs, u :: us => vadd (smul c u) (linComb n cs us)
  | _, _ => vzero n

/-- `v · M` for a matrix with `n` columns: the combination of the rows of `M` -/
def vecMat (n : Nat) (v : Vec K) (M : Mat K) : Vec K := linComb n v M

def zeroMat (n : Nat) : Mat K := List.replicate n (vzero n)

/-- `j`-th column -/
def col (j : Nat) (M : Mat K) : Vec K := M.map fun r => r.getD j 0

/-- `X · Y` where `Y` has `n` columns -/
def matMul (n : Nat) (X Y : Mat K) : Mat K :=
  X.map fun r => (List.range n).map fun j => dot r (col j Y)

def idMat [One K] (n : Nat) : Mat K :=
  (List.range n).map fun i => (List.range n).map fun j => if i = j then 1 else 0

/-- `n` rows of length `n` -/
def Mat.isSquare (M : Mat K) (n : Nat) : Bool :=
  M.length == n && M.all fun r => r.length == n

/-- `diag(X, Y)` for `X : m × m`, `Y : n × n` -/
def blockDiag (m n : Nat) (X Y : Mat K) : Mat K :=
  X.map (fun r => r ++ vzero n) ++ Y.map (fun r => vzero m ++ r)

end

/-- ε-free weighted automaton in matrix form (`field_wfsa.Simple`): `arcs` is the dict
`symbol ↦ dim × dim matrix`. -/
structure MAut (σ K : Type) where
  dim : Nat
  start : Vec K
  arcs : List (σ × Mat K)
  stop : Vec K
deriving Repr

section
variable {σ K : Type} [DecidableEq σ] [Add K] [Mul K] [Zero K]

def MAut.syms (A : MAut σ K) : List σ := A.arcs.map (·.1)

/-- all sizes agree with `dim`, and the symbols are pairwise distinct (dict keys) -/
def MAut.wf (A : MAut σ K) : Bool :=
  A.start.length == A.dim && A.stop.length == A.dim
    && A.arcs.all (fun p => p.2.isSquare A.dim)
    && decide A.syms.Nodup

def matLook (n : Nat) : List (σ × Mat K) → σ → Mat K
  | [], _ => zeroMat n
  | (b, M) :: rest, a => if b = a then M else matLook n rest a

/-- the matrix of symbol `a`; the zero matrix when `a` has no entry
(`0 * V` in `Simple.counterexample`) -/
def MAut.mat (A : MAut σ K) (a : σ) : Mat K := matLook A.dim A.arcs a

/-- `M_{a₁} ⋯ M_{aₙ} · stop` -/
def MAut.bwd (A : MAut σ K) (w : List σ) : Vec K :=
  w.foldr (fun a v => matVec (A.mat a) v) A.stop

/-- `start · M_{a₁} ⋯ M_{aₙ} · stop` -/
def MAut.weight (A : MAut σ K) (w : List σ) : K :=
  dot A.start (A.bwd w)

/-- union of the two symbol sets (those of `A` first) -/
def MAut.diffSyms (A B : MAut σ K) : List σ :=
  A.syms ++ B.syms.filter fun b => !(A.syms.contains b)

/-- the difference automaton: dimension `A.dim + B.dim`, start `[A.start, -B.start]`,
matrices `diag(A.M_a, B.M_a)` over the union of the symbols, stop `[A.stop; B.stop]`.
Its weight on `w` is `A.weight w - B.weight w` (`diff_weight`). -/
def MAut.diff [Neg K] (A B : MAut σ K) : MAut σ K where
  dim := A.dim + B.dim
  start := A.start ++ B.start.map fun x => -x
  arcs := (A.diffSyms B).map fun a => (a, blockDiag A.dim B.dim (A.mat a) (B.mat a))
  stop := A.stop ++ B.stop

end

/-- certificate that an automaton has weight zero everywhere: a spanning set `U` of a subspace;
`cStop` with `stop = Σ cStopᵢ Uᵢ`; for every symbol `a` a coefficient matrix `Ca` (one row per
element of `U`) with `M_a · Uᵢ = Σⱼ Ca[i][j] Uⱼ`. -/
structure ZeroCert (σ K : Type) where
  U : List (Vec K)
  cStop : List K
  cArc : List (σ × List (List K))
deriving Repr

section
variable {σ K : Type} [DecidableEq σ] [DecidableEq K] [Add K] [Mul K] [Zero K]

def coeffLook : List (σ × List (List K)) → σ → List (List K)
  | [], _ => []
  | (b, c) :: rest, a => if b = a then c else coeffLook rest a

/-- `M · uᵢ = linComb csᵢ U` for each `uᵢ` of `us` (a missing coefficient row counts as empty) -/
def closedRows (n : Nat) (M : Mat K) (U : List (Vec K)) : List (Vec K) → List (List K) → Bool
  | [], _ => true
  | u :: us, cs =>
    decide (matVec M u = linComb n (cs.headD []) U) && closedRows n M U us cs.tail

/-- checks: `C.wf`; every `u ∈ U` has length `C.dim`; `stop = linComb cStop U`;
for every arc matrix `M_a` of `C` and every `uᵢ`: `M_a · uᵢ = linComb (cArc a)ᵢ U`;
`start · u = 0` for every `u ∈ U`. -/
def zeroCertCheck (C : MAut σ K) (cert : ZeroCert σ K) : Bool :=
  C.wf
    && cert.U.all (fun u => u.length == C.dim)
    && decide (C.stop = linComb C.dim cert.cStop cert.U)
    && C.arcs.all (fun p => closedRows C.dim p.2 cert.U cert.U (coeffLook cert.cArc p.1))
    && cert.U.all (fun u => decide (dot C.start u = 0))

/-- certificate of equivalence of `A` and `B` = zero certificate of `A.diff B` -/
def equivCertCheck [Neg K] (A B : MAut σ K) (cert : ZeroCert σ K) : Bool :=
  zeroCertCheck (A.diff B) cert

/-- the Hankel block `H[i][j] = A.weight (us[i] ++ vs[j])` -/
def hankel (A : MAut σ K) (us vs : List (List σ)) : Mat K :=
  us.map fun u => vs.map fun v => A.weight (u ++ v)

/-- Hankel lower bound: `us`, `vs` are `k` prefixes and `k` suffixes, `minorInv` is `k × k` and
`H · minorInv = I`.  Then every automaton equivalent to `A` has at least `k` states
(`rankLower_sound`). -/
def rankLowerCheck [One K] (A : MAut σ K) (us vs : List (List σ)) (minorInv : Mat K) : Bool :=
  vs.length == us.length
    && minorInv.isSquare us.length
    && decide (matMul us.length (hankel A us vs) minorInv = idMat us.length)

end

end Genlm
