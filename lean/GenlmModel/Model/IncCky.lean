import GenlmModel.Model.Cfg
/-!
Mirror model of `genlm/grammar/parse/cky.py` (class `IncrementalCKY`) and of `CFG._parse_chart`
(`genlm/grammar/cfg.py`).

* `PyChart κ K` is the Python `Chart` (a `dict` whose missing keys read as `zero`), as an insertion-ordered
  association list; `c[k] += v` is `PyChart.add` (`zero + v` for a missing key, exactly as `__missing__`
  followed by `__setitem__`).
* One *column* of the incremental chart is the Python `defaultdict(Chart)` `new` of `extend_chart`:
  `new[i][X]` is stored under the flat key `(i, X)`; `new[i].items()` is `colItems new i` (insertion order is
  preserved within a row).
* the chart of a prefix is the list of its columns `0 .. |prefix|`.

Deviations that cannot be observed on the inputs the Python code accepts: `_cnf` *asserts* that every rule has
a body of length ≤ 2 (the model drops longer rules); `extend_chart` indexes `prefix[k-1]` (the model skips the
preterminal loop for the empty prefix, which `_compute_chart` never passes); list indexing `chart[j]` is
`getD j []` (always in range in the code).
Not modelled: `IncrementalCKY.__init__` first renames the nonterminals injectively (`cfg.renumber()`); the model
takes the grammar as given (`Props.C02.names_irrelevant` covers renamings).  `cfg.V` is a Python `set`; here it
is a list, and the statements about `next_token_weights` assume `G.V.Nodup`.
-/
namespace Genlm
section
variable {κ σ K : Type} [DecidableEq κ] [DecidableEq σ] [Add K] [Mul K] [Zero K] [One K]

/-- Python `Chart`: insertion-ordered dict, missing keys read as `0` -/
abbrev PyChart (κ K : Type) := List (κ × K)

/-- `c[k]` (with `Chart.__missing__`) -/
def PyChart.get (c : PyChart κ K) (k : κ) : K :=
  match c.find? (fun e => e.1 = k) with
  | some e => e.2
  | none => 0

/-- `c[k] += v` -/
def PyChart.add : PyChart κ K → κ → K → PyChart κ K
  | [], k, v => [(k, 0 + v)]
  | e :: c, k, v => if e.1 = k then (e.1, e.2 + v) :: c else e :: PyChart.add c k v

/-- a column of the incremental CKY chart: `(i, X) ↦ weight` -/
abbrev CkyCol (σ K : Type) := PyChart (Nat × σ) K

/-- `col[i][X]` -/
def colGet (c : CkyCol σ K) (i : Nat) (X : σ) : K := PyChart.get c (i, X)
/-- `col[i][X] += v` -/
def colAdd (c : CkyCol σ K) (i : Nat) (X : σ) (v : K) : CkyCol σ K := PyChart.add c (i, X) v
/-- `col[i].items()` -/
def colItems (c : CkyCol σ K) (i : Nat) : List (σ × K) :=
  (c.filter (fun e => e.1.1 = i)).map fun e => (e.1.2, e.2)

/-! ### `CFG._cnf` -/

/-- a binary rule `X → Y Z` with weight `w` -/
structure BinRule (σ K : Type) where
  w : K
  X : σ
  Y : σ
  Z : σ

/-- `nullary`: `nullary += r.w` for the rules with empty body -/
def cnfNullary (G : CFG σ K) : K :=
  G.rules.foldl (fun acc r => if r.body.length = 0 then acc + r.w else acc) 0

/-- `terminal[a]`: rules with body `[a]`, in grammar order -/
def cnfTerminal (G : CFG σ K) (a : σ) : List (Rule σ K) :=
  G.rules.filter (fun r => r.body = [a])

/-- `binary`: rules with body of length 2, in grammar order -/
def cnfBinary (G : CFG σ K) : List (BinRule σ K) :=
  G.rules.filterMap fun r =>
    match r.body with
    | [Y, Z] => some ⟨r.w, r.head, Y, Z⟩
    | _ => none

/-- `r_y_xz[Y]` of `IncrementalCKY.__init__` -/
def rYXZ (G : CFG σ K) (Y : σ) : List (BinRule σ K) :=
  (cnfBinary G).filter (fun r => r.Y = Y)

/-! ### `extend_chart`, `_compute_chart`, `__call__` -/

/-- the two innermost loops of `extend_chart` (`for Y, y in chart[j][i].items(): for r in r_y_xz[Y]`) -/
def extendInner (G : CFG σ K) (chartj : CkyCol σ K) (i j : Nat) (new : CkyCol σ K) : CkyCol σ K :=
  (colItems chartj i).foldl (fun new Yy =>
    (rYXZ G Yy.1).foldl (fun new r => colAdd new i r.X (r.w * Yy.2 * colGet new j r.Z)) new) new

/-- the body of `for span in range(2, k+1)` of `extend_chart`, with `i = k - span` -/
def extendSpan (G : CFG σ K) (chart : List (CkyCol σ K)) (k i : Nat) (new : CkyCol σ K) : CkyCol σ K :=
  (List.range' (i + 1) (k - (i + 1))).foldl
    (fun new j => extendInner G (chart.getD j []) i j new) new

/-- `extend_chart(chart, prefix)`: the new column `k = len(prefix)` -/
def extendChart (G : CFG σ K) (chart : List (CkyCol σ K)) (pre : List σ) : CkyCol σ K :=
  let k := pre.length
  -- Nullary
  let new : CkyCol σ K := colAdd [] k G.S (cnfNullary G)
  -- Preterminal
  let new := match pre[k - 1]? with
    | some a => (cnfTerminal G a).foldl (fun new r => colAdd new (k - 1) r.head r.w) new
    | none => new
  -- Binary rules
  (List.range' 2 (k - 1)).foldl (fun new span => extendSpan G chart k (k - span) new) new

/-- column 0: `tmp[0][0][S] = nullary` -/
def ckyInit (G : CFG σ K) : CkyCol σ K := [((0, G.S), cnfNullary G)]

/-- `_compute_chart` unrolled along the prefix: `done` is the prefix consumed so far -/
def ckyChartAux (G : CFG σ K) : List σ → List σ → List (CkyCol σ K) → List (CkyCol σ K)
  | _, [], c => c
  | done, t :: rest, c => ckyChartAux G (done ++ [t]) rest (c ++ [extendChart G c (done ++ [t])])

/-- `extend_chart` reads `prefix` only through `len(prefix)` (`= len(chart)`) and `prefix[-1]`; this is the
column extension as a function of the chart and the new token, the form `Model/Memo.lean` expects
(`ckyChart_eq_pureChart`, `incCky_memo_transparent`) -/
def ckyExt (G : CFG σ K) (c : List (CkyCol σ K)) (t : σ) : CkyCol σ K :=
  extendChart G c (List.replicate (c.length - 1) t ++ [t])

/-- `IncrementalCKY.chart(prefix)` computed from scratch -/
def ckyChart (G : CFG σ K) (p : List σ) : List (CkyCol σ K) := ckyChartAux G [] p [ckyInit G]

/-- `IncrementalCKY.__call__`: `chart(x)[len(x)][0][S]` -/
def incCkyCall (G : CFG σ K) (x : List σ) : K := colGet ((ckyChart G x).getD x.length []) 0 G.S

/-! ### `next_token_weights` -/

/-- the two innermost loops of the outside pass -/
def outsideInner (G : CFG σ K) (chartj : CkyCol σ K) (i j : Nat) (α : CkyCol σ K) : CkyCol σ K :=
  (colItems chartj i).foldl (fun α Yy =>
    (rYXZ G Yy.1).foldl (fun α r => colAdd α j r.Z (r.w * Yy.2 * colGet α i r.X)) α) α

/-- the body of `for span in reversed(range(2, k+1))`, with `i = k - span` -/
def outsideSpan (G : CFG σ K) (chart : List (CkyCol σ K)) (k i : Nat) (α : CkyCol σ K) : CkyCol σ K :=
  (List.range' (i + 1) (k - (i + 1))).foldl
    (fun α j => outsideInner G (chart.getD j []) i j α) α

/-- the table `α` at the end of the binary-rule loop of `next_token_weights(chart, prefix)` -/
def outsideAlpha (G : CFG σ K) (chart : List (CkyCol σ K)) (pre : List σ) : CkyCol σ K :=
  let k := pre.length + 1
  let α : CkyCol σ K := colAdd [] 0 G.S 1
  ((List.range' 2 (k - 1)).reverse).foldl (fun α span => outsideSpan G chart k (k - span) α) α

/-- `next_token_weights(chart, prefix)`: the chart `q` (keys: the terminals with a preterminal rule) -/
def nextTokenWeights (G : CFG σ K) (chart : List (CkyCol σ K)) (pre : List σ) : PyChart σ K :=
  let k := pre.length + 1
  let α := outsideAlpha G chart pre
  G.V.foldl (fun q w =>
    (cnfTerminal G w).foldl (fun q r => PyChart.add q w (r.w * colGet α (k - 1) r.head)) q) []

/-- `IncrementalCKY.p_next(prefix)` -/
def incCkyPNext (G : CFG σ K) (pre : List σ) : PyChart σ K :=
  nextTokenWeights G (ckyChart G pre) pre

/-! ### `CFG._parse_chart` and `CFG.__call__` (for a grammar that is already in CNF) -/

/-- `terminal[xs[i]]` -/
def cnfTerminalAt (G : CFG σ K) (xs : List σ) (i : Nat) : List (Rule σ K) :=
  match xs[i]? with
  | some a => cnfTerminal G a
  | none => []

/-- `_parse_chart(xs)`: the chart `c[i, X, k]`, filled by increasing span -/
def parseChart (G : CFG σ K) (xs : List σ) : PyChart (Nat × σ × Nat) K :=
  let N := xs.length
  -- nullary rule
  let c : PyChart (Nat × σ × Nat) K :=
    (List.range (N + 1)).foldl (fun c i => PyChart.add c (i, G.S, i) (cnfNullary G)) []
  -- preterminal rules
  let c := (List.range N).foldl (fun c i =>
    (cnfTerminalAt G xs i).foldl (fun c r => PyChart.add c (i, r.head, i + 1) r.w) c) c
  -- binary rules
  (List.range' 2 (N - 1)).foldl (fun c span =>
    (List.range (N - span + 1)).foldl (fun c i =>
      let k := i + span
      (List.range' (i + 1) (k - (i + 1))).foldl (fun c j =>
        (cnfBinary G).foldl (fun c r =>
          PyChart.add c (i, r.X, k) (r.w * PyChart.get c (i, r.Y, j) * PyChart.get c (j, r.Z, k))) c) c) c) c

/-- `CFG.__call__(xs)` after the conversion `self = self.cnf`: `_parse_chart(xs)[0, S, len(xs)]` -/
def cfgParse (G : CFG σ K) (xs : List σ) : K := PyChart.get (parseChart G xs) (0, G.S, xs.length)

end
end Genlm
