/-
Core vocabulary of the model of genlm-grammar.  NO Mathlib imports below `Model/`,
so that the driver can be compiled to a native executable.
Everything lives in `namespace Genlm`.
-/
namespace Genlm

/-- S-expressions: the image of every hashable name the Python library creates
(str, int, tuple, namedtuple, frozenset …).  Binary `cons` so that `DecidableEq` derives. -/
inductive Sx where
  | s (v : String) | i (v : Int) | nil | cons (a b : Sx)
deriving Repr, DecidableEq, Inhabited

/-- `tag "T" [a,b]` = Python tuple `(a,b)`; `tag "Slash" [Y,Z,i]` = namedtuple. -/
def Sx.tag (t : String) (xs : List Sx) : Sx := .cons (.s t) (xs.foldr .cons .nil)
def Sx.tup (xs : List Sx) : Sx := Sx.tag "T" xs
/-- Python's `EPSILON = ""`. -/
def Sx.eps : Sx := .s ""

structure Rule (σ K : Type) where
  w : K
  head : σ
  body : List σ
deriving Repr, DecidableEq

structure CFG (σ K : Type) where
  S : σ
  V : List σ
  rules : List (Rule σ K)
deriving Repr

/-- all ways of cutting a list in two -/
def splits {α : Type} : List α → List (List α × List α)
  | [] => [([], [])]
  | x :: xs => ([], x :: xs) :: (splits xs).map (fun p => (x :: p.1, p.2))

section
variable {σ K : Type} [DecidableEq σ] [Add K] [Mul K] [Zero K] [One K]

/-- right fold sum; `lsum_eq_sum` relates it to `List.sum` in the proof files -/
def lsum (l : List K) : K := l.foldr (· + ·) 0
def lprod (l : List K) : K := l.foldr (· * ·) 1

/-- weight with which symbol `s` yields `x`, given the table `f` for nonterminals.
A symbol is a terminal iff it is in `V`, exactly as `CFG.is_terminal`. -/
def Wsym (V : List σ) (f : σ → List σ → K) (s : σ) (x : List σ) : K :=
  if s ∈ V then (if x = [s] then 1 else 0) else f s x

def Wbody (V : List σ) (f : σ → List σ → K) : List σ → List σ → K
  | [], x => if x = [] then 1 else 0
  | s :: ss, x => lsum ((splits x).map fun p => Wsym V f s p.1 * Wbody V f ss p.2)

/-- `WN G n X x`: the sum of the weights of all derivation trees of height ≤ n of the
string `x` from `X` — the library's own reference semantics (`CFG.derivations`). -/
def WN (G : CFG σ K) : Nat → σ → List σ → K
  | 0, _, _ => 0
  | n+1, X, x => lsum ((G.rules.filter (fun r => r.head = X)).map fun r =>
      r.w * Wbody G.V (WN G n) r.body x)

/-- total weight (string forgotten), n-th Kleene iterate of the grammar's polynomial system:
`CFG._bottom_up_step` iterated n times from the zero chart. -/
def ZN (G : CFG σ K) : Nat → σ → K
  | 0, _ => 0
  | n+1, X => lsum ((G.rules.filter (fun r => r.head = X)).map fun r =>
      r.w * lprod (r.body.map fun y => if y ∈ G.V then 1 else ZN G n y))

end

/-! ### memoised evaluation of `WN` (table over heads × infixes), used by the driver -/
section
variable {σ K : Type} [DecidableEq σ] [Add K] [Mul K] [Zero K] [One K]

def prefixes {α : Type} : List α → List (List α)
  | [] => [[]]
  | x :: xs => [] :: (prefixes xs).map (x :: ·)

def suffixes {α : Type} : List α → List (List α)
  | [] => [[]]
  | x :: xs => (x :: xs) :: suffixes xs

/-- all contiguous sublists (with repetitions, harmless) -/
def infixes {α : Type} (x : List α) : List (List α) :=
  (suffixes x).flatMap prefixes

abbrev Tab (σ K : Type) := List ((σ × List σ) × K)

def Tab.get (t : Tab σ K) (X : σ) (x : List σ) : K :=
  match t.find? (fun e => e.1 = (X, x)) with
  | some e => e.2
  | none => 0

def heads (G : CFG σ K) : List σ := (G.rules.map (·.head)).eraseDups

/-- `Wbody` without enumerating the splits at a terminal (`WbodyFast_eq` in `Proofs/Fast.lean`) -/
def WbodyFast (V : List σ) (f : σ → List σ → K) : List σ → List σ → K
  | [], x => if x = [] then 1 else 0
  | s :: ss, x =>
    if s ∈ V then
      match x with
      | [] => 0
      | a :: x' => if a = s then WbodyFast V f ss x' else 0
    else lsum ((splits x).map fun p => f s p.1 * WbodyFast V f ss p.2)

def wnStepAt (G : CFG σ K) (f : σ → List σ → K) (X : σ) (x : List σ) : K :=
  lsum ((G.rules.filter (fun r => r.head = X)).map fun r => r.w * Wbody G.V f r.body x)

def wnStepAtFast (G : CFG σ K) (f : σ → List σ → K) (X : σ) (x : List σ) : K :=
  lsum ((G.rules.filter (fun r => r.head = X)).map fun r => r.w * WbodyFast G.V f r.body x)

def tabStep (G : CFG σ K) (keys : List (σ × List σ)) (t : Tab σ K) : Tab σ K :=
  keys.map fun k => (k, wnStepAt G t.get k.1 k.2)

def tabKeys (G : CFG σ K) (xs : List (List σ)) : List (σ × List σ) :=
  (heads G).flatMap fun X => ((xs.flatMap infixes).eraseDups).map fun u => (X, u)

def WNtab (G : CFG σ K) (keys : List (σ × List σ)) : Nat → Tab σ K
  | 0 => []
  | n+1 => tabStep G keys (WNtab G keys n)

/-- the step the driver actually runs (equal to `tabStep`: `tabStepFast_eq`) -/
def tabStepFast (G : CFG σ K) (keys : List (σ × List σ)) (t : Tab σ K) : Tab σ K :=
  keys.map fun k => (k, wnStepAtFast G t.get k.1 k.2)

/-! ### table evaluation of `ZN` -/
def zget (z : List (σ × K)) (X : σ) : K :=
  match z.find? (fun e => e.1 = X) with
  | some e => e.2
  | none => 0

def znStep (G : CFG σ K) (z : List (σ × K)) : List (σ × K) :=
  (heads G).map fun X => (X, lsum ((G.rules.filter (fun r => r.head = X)).map fun r =>
    r.w * lprod (r.body.map fun y => if y ∈ G.V then 1 else zget z y)))

def ZNtab (G : CFG σ K) : Nat → List (σ × K)
  | 0 => []
  | n+1 => znStep G (ZNtab G n)

end
end Genlm
