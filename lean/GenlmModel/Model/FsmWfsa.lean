import GenlmModel.Model.WfsaOps
/-! Mirror model of `genlm/grammar/lark_interface.py`, function `interegular_to_wfsa` — the part
after `fsm = interegular.parse_pattern(pattern).to_fsm()` (the live `else:` branch).

An `interegular` FSM is deterministic over *transition classes* `τ` (`fsm.alphabet.by_transition`):
`fsm.map[i]` is a dict `τ → state`.  We keep it as the list of triples `(i, a, j)`; `expand a` is
Python's `expand_alphabet(a)` (`charset - set(fsm.alphabet)` for the class of `anything_else`, else
the members `fsm.alphabet.by_transition[a]`; a member is a string, possibly of several characters
for case-insensitive patterns).  `states`, `finals` are Python sets, here lists (the theorems assume
`states.Nodup`); `live` is `fsm.islive`.  The state renaming `name` is the identity (default).

For every state `i` the Python code runs two loops: the first counts `K` (the number of
single-character members of the classes leading to non-rejected states, plus one if `i` is final),
the second emits one arc of weight `1 / K` for each of them, and the final weight `1 / K`; states
with `K = 0` are skipped.  Multi-character members are skipped in BOTH loops (repaired behaviour).
`1 / K` is the parameter `inv K` (no division in Mathlib-free model files). -/
namespace Genlm

structure Fsm (ι τ : Type) where
  initial : ι
  states : List ι
  finals : List ι
  map : List (ι × τ × ι)
  live : ι → Bool
  expand : τ → List (List Char)

section
variable {ι τ K : Type} [DecidableEq ι]

/-- `len(A) == 1`, returning the character -/
def single? : List Char → Option Char
  | [c] => some c
  | _ => none

/-- `j in rejection_states` where `rejection_states = [e for e in fsm.states if not fsm.islive(e)]` -/
def Fsm.rejected (F : Fsm ι τ) (j : ι) : Bool := decide (j ∈ F.states) && !F.live j

/-- `fsm.map[i].items()` -/
def Fsm.out (F : Fsm ι τ) (i : ι) : List (ι × τ × ι) := F.map.filter fun e => e.1 = i

/-- the first loop: `K` before the `if i in fsm.finals: K += 1` -/
def Fsm.fanArcs (F : Fsm ι τ) (i : ι) : Nat :=
  ((F.out i).map fun e =>
    if F.rejected e.2.2 then 0
    else ((F.expand e.2.1).map fun A => if A.length = 1 then 1 else 0).sum).sum

/-- `K`: the fan-out of state `i` -/
def Fsm.fan (F : Fsm ι τ) (i : ι) : Nat := F.fanArcs i + (if i ∈ F.finals then 1 else 0)

/-- the second loop: the `(A, j)` for which `m.add_arc(i, A, j, 1 / K)` is executed -/
def Fsm.emit (F : Fsm ι τ) (i : ι) : List (Char × ι) :=
  (F.out i).flatMap fun e =>
    if F.rejected e.2.2 then []
    else (F.expand e.2.1).filterMap fun A => (single? A).map fun c => (c, e.2.2)

/-- `interegular_to_wfsa` after the FSM has been built -/
def fsmToWfsa [One K] (inv : Nat → K) (F : Fsm ι τ) : WFSA ι Char K where
  start := [(F.initial, 1)]
  stop := F.states.flatMap fun i =>
    if F.fan i = 0 then [] else if i ∈ F.finals then [(i, inv (F.fan i))] else []
  arcs := F.states.flatMap fun i =>
    if F.fan i = 0 then []
    else (F.emit i).map fun cj => ⟨i, some cj.1, cj.2, inv (F.fan i)⟩

/-- FSM acceptance of a string of single characters from state `i`: a path of transitions to
non-rejected states whose class expansions contain the characters (as one-character members),
ending in a final state. -/
inductive Fsm.Accepts (F : Fsm ι τ) : ι → List Char → Prop
  | final {i : ι} : i ∈ F.finals → F.Accepts i []
  | step {i j : ι} {a : τ} {c : Char} {x : List Char} :
      (i, a, j) ∈ F.map → F.rejected j = false → [c] ∈ F.expand a → F.Accepts j x →
      F.Accepts i (c :: x)

/-- executable (Boolean) version of `Fsm.Accepts` (`FsmAux.acceptsFrom_iff`) -/
def Fsm.acceptsFrom (F : Fsm ι τ) : List Char → ι → Bool
  | [], i => decide (i ∈ F.finals)
  | c :: x, i => (F.out i).any fun e =>
      !F.rejected e.2.2 && (F.expand e.2.1).contains [c] && F.acceptsFrom x e.2.2

def Fsm.accepts (F : Fsm ι τ) (x : List Char) : Bool := F.acceptsFrom x F.initial

end
end Genlm
