import GenlmModel.Model.Basic
/-!
Mirror model of `CFG._bottom_up_step` / `CFG.naive_bottom_up` (`genlm/grammar/cfg.py`).

```python
def _bottom_up_step(self, V):
    U = R.chart()
    for a in self.V: U[a] = one
    for p in self:
        update = p.w
        for X in p.body:
            if self.is_nonterminal(X): update *= V[X]
        U[p.head] += update
    return U
```

A chart is modelled as a total function `σ → K` (a missing key reads as zero, as `Chart.__missing__`).
The two loops are left folds, in the order of the Python code; a rule whose head is a terminal
adds to the `one` already stored there (the Python code does not test the head).  NO Mathlib.
-/
namespace Genlm
section
variable {σ K : Type} [DecidableEq σ] [Add K] [Mul K] [Zero K] [One K]

/-- the inner loop: `update = p.w; for X in p.body: if nonterminal: update *= V[X]` -/
def ruleUpdate (G : CFG σ K) (V : σ → K) (r : Rule σ K) : K :=
  r.body.foldl (fun u y => if y ∈ G.V then u else u * V y) r.w

/-- `_bottom_up_step`: the entry of the new chart `U` at the key `X` -/
def bottomUpStep (G : CFG σ K) (V : σ → K) (X : σ) : K :=
  (G.rules.filter (fun r => r.head = X)).foldl (fun acc r => acc + ruleUpdate G V r)
    (if X ∈ G.V then 1 else 0)

/-- `n` rounds of `naive_bottom_up`, starting from the empty (zero) chart -/
def bottomUpN (G : CFG σ K) : Nat → σ → K
  | 0 => fun _ => 0
  | n+1 => bottomUpStep G (bottomUpN G n)

end
end Genlm
