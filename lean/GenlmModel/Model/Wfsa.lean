import GenlmModel.Model.Basic
/-! Weighted automata and transducers: representation, path-sum specification, and mirror
models of `genlm/grammar/wfsa/base.py` / `fst.py`.  States `ι`, symbols `σ`; a label is
`Option σ` (`none` = ε, Python's `EPSILON = ""`).  Lists may hold several entries for the same
state / arc: the meaning is their sum (Python's `add_I`, `add_F`, `add_arc` accumulate). -/
namespace Genlm

structure Arc (ι σ K : Type) where
  src : ι
  lbl : Option σ
  dst : ι
  w : K
deriving Repr, DecidableEq

structure WFSA (ι σ K : Type) where
  start : List (ι × K)
  stop : List (ι × K)
  arcs : List (Arc ι σ K)
deriving Repr

structure TArc (ι σ K : Type) where
  src : ι
  inp : Option σ
  out : Option σ
  dst : ι
  w : K
deriving Repr, DecidableEq

structure FST (ι σ K : Type) where
  start : List (ι × K)
  stop : List (ι × K)
  arcs : List (TArc ι σ K)
deriving Repr

section
variable {ι σ K : Type} [DecidableEq ι] [DecidableEq σ] [Add K] [Mul K] [Zero K] [One K]

/-- accumulated weight of a key in an association list (a Python `Chart`) -/
def wlook (l : List (ι × K)) (i : ι) : K := lsum ((l.filter (fun e => e.1 = i)).map (·.2))

/-- `Qk A k i x j`: total weight of the paths with exactly `k` arcs from `i` to `j` spelling `x`
(ε arcs spell nothing). -/
def Qk (A : WFSA ι σ K) : Nat → ι → List σ → ι → K
  | 0, i, x, j => if i = j ∧ x = [] then 1 else 0
  | k+1, i, x, j => lsum ((A.arcs.filter (fun e => e.src = i)).map fun e =>
      match e.lbl with
      | none => e.w * Qk A k e.dst x j
      | some a =>
        match x with
        | [] => 0
        | b :: x' => if a = b then e.w * Qk A k e.dst x' j else 0)

/-- accepting paths with exactly `k` arcs -/
def Pk (A : WFSA ι σ K) (k : Nat) (x : List σ) : K :=
  lsum (A.start.map fun s => lsum (A.stop.map fun f => s.2 * Qk A k s.1 x f.1 * f.2))

/-- accepting paths with at most `n` arcs: the stratified string weight -/
def PN (A : WFSA ι σ K) (n : Nat) (x : List σ) : K :=
  lsum ((List.range (n+1)).map fun k => Pk A k x)

/-- transducers: exactly `k` arcs from `i` to `j` reading `x` and writing `y` -/
def Tk (T : FST ι σ K) : Nat → ι → List σ → List σ → ι → K
  | 0, i, x, y, j => if i = j ∧ x = [] ∧ y = [] then 1 else 0
  | k+1, i, x, y, j => lsum ((T.arcs.filter (fun e => e.src = i)).map fun e =>
      match e.inp, e.out with
      | none, none => e.w * Tk T k e.dst x y j
      | some a, none => (match x with | [] => 0 | b :: x' => if a = b then e.w * Tk T k e.dst x' y j else 0)
      | none, some c => (match y with | [] => 0 | d :: y' => if c = d then e.w * Tk T k e.dst x y' j else 0)
      | some a, some c =>
        (match x, y with
         | b :: x', d :: y' => if a = b ∧ c = d then e.w * Tk T k e.dst x' y' j else 0
         | _, _ => 0))

def TPk (T : FST ι σ K) (k : Nat) (x y : List σ) : K :=
  lsum (T.start.map fun s => lsum (T.stop.map fun f => s.2 * Tk T k s.1 x y f.1 * f.2))

def TPN (T : FST ι σ K) (n : Nat) (x y : List σ) : K :=
  lsum ((List.range (n+1)).map fun k => TPk T k x y)

end
end Genlm
