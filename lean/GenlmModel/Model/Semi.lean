import GenlmModel.Model.Basic
/-! Executable weight types used by the driver.  The *laws* of the shipped Python
semirings are proved about the definitions generated from `semiring.py` (see
`Generated/`), these are only the carriers the driver computes with. -/
namespace Genlm

/-- Boolean semiring -/
structure BoolW where
  b : Bool
deriving DecidableEq, Repr, Inhabited
instance : Add BoolW := ⟨fun a b => ⟨a.b || b.b⟩⟩
instance : Mul BoolW := ⟨fun a b => ⟨a.b && b.b⟩⟩
instance : Zero BoolW := ⟨⟨false⟩⟩
instance : One BoolW := ⟨⟨true⟩⟩

/-- (max, ×) on rationals; intended domain: non-negative -/
structure MaxT where
  v : Rat
deriving DecidableEq, Repr, Inhabited
instance : Add MaxT := ⟨fun a b => ⟨max a.v b.v⟩⟩
instance : Mul MaxT := ⟨fun a b => ⟨a.v * b.v⟩⟩
instance : Zero MaxT := ⟨⟨0⟩⟩
instance : One MaxT := ⟨⟨1⟩⟩

/-- Expectation semiring: pairs ⟨p, r⟩ -/
structure Expc (K : Type) where
  p : K
  r : K
deriving DecidableEq, Repr, Inhabited
section
variable {K : Type} [Add K] [Mul K] [Zero K] [One K]
instance : Add (Expc K) := ⟨fun a b => ⟨a.p + b.p, a.r + b.r⟩⟩
instance : Mul (Expc K) := ⟨fun a b => ⟨a.p * b.p, a.p * b.r + b.p * a.r⟩⟩
instance : Zero (Expc K) := ⟨⟨0, 0⟩⟩
instance : One (Expc K) := ⟨⟨1, 0⟩⟩
end

/-- rationals with −∞ (max-plus carrier of the driver); `none` = −∞ -/
structure RatBot where
  v : Option Rat
deriving DecidableEq, Repr, Inhabited
instance : Add RatBot := ⟨fun a b => match a.v, b.v with | some x, some y => ⟨some (x + y)⟩ | _, _ => ⟨none⟩⟩
instance : Max RatBot := ⟨fun a b => match a.v, b.v with
  | some x, some y => ⟨some (max x y)⟩ | some x, none => ⟨some x⟩ | none, y => ⟨y⟩⟩
instance : OfNat RatBot 0 := ⟨⟨some 0⟩⟩
instance : OfNat RatBot 1 := ⟨⟨some 1⟩⟩

/-- a NON-commutative closed semiring for the driver: finite languages of strings of length ≤ 3
(union, concatenation truncated at the length bound, Kleene star) — the "user semiring" of the
path-solver checks.  Canonical form: sorted, duplicate-free. -/
structure LangW where
  l : List String
deriving DecidableEq, Repr, Inhabited
def LangW.bound : Nat := 3
def LangW.canon (xs : List String) : LangW :=
  ⟨((xs.filter fun s => s.length ≤ LangW.bound).eraseDups).mergeSort (fun a b => decide (a ≤ b))⟩
instance : Add LangW := ⟨fun a b => LangW.canon (a.l ++ b.l)⟩
instance : Mul LangW := ⟨fun a b => LangW.canon (a.l.flatMap fun u => b.l.map fun v => u ++ v)⟩
instance : Zero LangW := ⟨⟨[]⟩⟩
instance : One LangW := ⟨⟨[""]⟩⟩
def LangW.star (a : LangW) : LangW :=
  (List.range (LangW.bound + 1)).foldl (fun acc _ => 1 + a * acc) 1

/-- closed-semiring star where the model needs one (partial: `none` = undefined/divergent) -/
class HasStar (K : Type) where
  star : K → Option K

instance : HasStar Rat := ⟨fun x => if x = 1 then none else some (1 / (1 - x))⟩
instance : HasStar BoolW := ⟨fun _ => some 1⟩
instance : HasStar MaxT := ⟨fun x => if x.v ≤ 1 then some 1 else none⟩
instance : HasStar LangW := ⟨fun x => some x.star⟩

/-- multiplicative inverse where the model needs one (`V[i] ** (-1)` in `push`) -/
class HasInv (K : Type) where
  inv : K → Option K
instance : HasInv Rat := ⟨fun x => if x = 0 then none else some (1 / x)⟩
instance : HasInv BoolW := ⟨fun x => if x.b then some 1 else none⟩
instance : HasInv MaxT := ⟨fun x => if x.v = 0 then none else some ⟨1 / x.v⟩⟩
instance : HasInv LangW := ⟨fun _ => none⟩

end Genlm
