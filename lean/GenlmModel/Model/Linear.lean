import GenlmModel.Model.Wfsa
/-! Mirror model of `genlm/grammar/linear.py` (`WeightedGraph`): block-triangular solvers
`solve_left` / `solve_right`, `closure_scc_based`, Lehmann's closure `_closure`, `Blocks`, and an
executable *checker* for the output of `scc_decomposition`.  No Mathlib.

Representation.  `WGraph.nodes` is Python's set `N` (as a list), `WGraph.edges` lists the items of
the chart `E` (several entries for the same pair accumulate, `WGraph.E`).  Python's
`__setitem__` registers `i ∈ incoming[j]`, `j ∈ outgoing[i]` exactly when it stores the key
`(i,j)` in `E` (value ≠ zero), so `incoming`/`outgoing` are the (deduplicated) key sets of
`edges`; they are *not* recomputed from the weights. -/
namespace Genlm

structure WGraph (ι K : Type) where
  nodes : List ι
  edges : List ((ι × ι) × K)
deriving Repr

/-- one element of `WeightedGraph.Blocks`: the node set of a strongly connected component and
the closure matrix of the block as the code computed it (`clo` lists the items `(j,k) ↦ B[j,k]`
of the dict returned by `_closure`). -/
structure Block (ι K : Type) where
  nodes : List ι
  clo : List ((ι × ι) × K)
deriving Repr

section
variable {ι K : Type} [DecidableEq ι] [Add K] [Mul K] [Zero K] [One K]

/-- `E[i,j]` (accumulated; zero when the key is absent, Python's `Chart.__missing__`) -/
def WGraph.E (g : WGraph ι K) (i j : ι) : K := wlook g.edges (i, j)

/-- the stored keys of `E`: the pairs `(i,j)` with `i ∈ incoming[j]` / `j ∈ outgoing[i]` -/
def WGraph.arcs (g : WGraph ι K) : List (ι × ι) := g.edges.map (·.1)

/-- remove duplicates (Python sets) -/
def linDedup : List ι → List ι
  | [] => []
  | x :: xs => let r := linDedup xs; if x ∈ r then r else x :: r

def WGraph.incoming (g : WGraph ι K) (j : ι) : List ι :=
  linDedup ((g.arcs.filter (fun e => e.2 = j)).map (·.1))

def WGraph.outgoing (g : WGraph ι K) (i : ι) : List ι :=
  linDedup ((g.arcs.filter (fun e => e.1 = i)).map (·.2))

/-- `B[j,k]` of a block -/
def Block.B (blk : Block ι K) (j k : ι) : K := wlook blk.clo (j, k)

/-! ### `solve_left`, `solve_right`, `closure_scc_based` -/

/-- the chart `enter` of one iteration of `solve_left`, computed from the solution so far -/
def enterLeft (g : WGraph ι K) (b : ι → K) (sol : List (ι × K)) (blk : Block ι K) : List (ι × K) :=
  blk.nodes.map fun j => (j, b j + lsum ((g.incoming j).map fun i => wlook sol i * g.E i j))

/-- one iteration of the loop of `solve_left`: `sol[k] += enter[j] * B[j,k]` for `(j,k)` in `B` -/
def solveLeftBlock (g : WGraph ι K) (b : ι → K) (sol : List (ι × K)) (blk : Block ι K) :
    List (ι × K) :=
  let enter := enterLeft g b sol blk
  sol ++ blk.clo.map fun e => (e.1.2, wlook enter e.1.1 * e.2)

/-- `WeightedGraph.solve_left(b)`; the result chart is read with `wlook` -/
def solveLeft (g : WGraph ι K) (blocks : List (Block ι K)) (b : ι → K) : List (ι × K) :=
  blocks.foldl (solveLeftBlock g b) []

def enterRight (g : WGraph ι K) (b : ι → K) (sol : List (ι × K)) (blk : Block ι K) : List (ι × K) :=
  blk.nodes.map fun j => (j, b j + lsum ((g.outgoing j).map fun k => g.E j k * wlook sol k))

/-- one iteration of `solve_right`: `sol[i] += B[i,j] * enter[j]` for `(i,j)` in `B` -/
def solveRightBlock (g : WGraph ι K) (b : ι → K) (sol : List (ι × K)) (blk : Block ι K) :
    List (ι × K) :=
  let enter := enterRight g b sol blk
  sol ++ blk.clo.map fun e => (e.1.1, e.2 * wlook enter e.1.2)

/-- `WeightedGraph.solve_right(b)`: the blocks are processed in reverse order -/
def solveRight (g : WGraph ι K) (blocks : List (Block ι K)) (b : ι → K) : List (ι × K) :=
  blocks.reverse.foldl (solveRightBlock g b) []

/-- `closure_scc_based`: row `i` is `solve_left(e_i)`.  (Python copies `sol[j]` for the keys `j`
of `sol`; here the accumulating entries of `sol` are re-keyed, `wlook` gives the same value.) -/
def closureScc (g : WGraph ι K) (blocks : List (Block ι K)) : List ((ι × ι) × K) :=
  g.nodes.flatMap fun i =>
    (solveLeft g blocks (fun j => if j = i then 1 else 0)).map fun e => ((i, e.1), e.2)

/-! ### `_closure` (Lehmann / Gauss–Jordan), `Blocks` -/

/-- one pivot `j`: `new[i,k] = old[i,k] + old[i,j] * star(old[j,j]) * old[j,k]` for `i,k ∈ N` -/
def lehStep (star : K → K) (N : List ι) (old : List ((ι × ι) × K)) (j : ι) :
    List ((ι × ι) × K) :=
  let sjj := star (wlook old (j, j))
  N.flatMap fun i => N.map fun k =>
    ((i, k), wlook old (i, k) + wlook old (i, j) * sjj * wlook old (j, k))

/-- the pivot loop over the remaining pivots `js` -/
def lehRun (star : K → K) (N : List ι) : List ι → List ((ι × ι) × K) → List ((ι × ι) × K)
  | [], old => old
  | j :: js, old => lehRun star N js (lehStep star N old j)

/-- the arguments `old[j,j]` at which `star` is evaluated during the pivot loop -/
def lehPivots (star : K → K) (N : List ι) : List ι → List ((ι × ι) × K) → List K
  | [], _ => []
  | j :: js, old => wlook old (j, j) :: lehPivots star N js (lehStep star N old j)

/-- `_closure(A, N)` for the node list `N` in the order given.  (For `N = []`, which never
occurs, Python returns a copy of `E`; the model returns the empty chart.) -/
def lehmann (g : WGraph ι K) (star : K → K) (N : List ι) : List ((ι × ι) × K) :=
  match N with
  | [i] => [((i, i), star (g.E i i))]
  | _ =>
    let old := lehRun star N N g.edges
    N.flatMap fun i => N.map fun k =>
      ((i, k), if i = k then wlook old (i, k) + 1 else wlook old (i, k))

/-- every argument of `star` in `_closure(A, N)` -/
def lehmannPivots (g : WGraph ι K) (star : K → K) (N : List ι) : List K :=
  match N with
  | [i] => [g.E i i]
  | _ => lehPivots star N N g.edges

/-- `WeightedGraph.Blocks` for a given decomposition `blocks` -/
def mkBlocks (g : WGraph ι K) (star : K → K) (blocks : List (List ι)) : List (Block ι K) :=
  blocks.map fun N => ⟨N, lehmann g star N⟩

/-- `closure_reference` -/
def closureRef (g : WGraph ι K) (star : K → K) : List ((ι × ι) × K) := lehmann g star g.nodes

end

/-! ### checker for `scc_decomposition` -/
section
variable {ι : Type} [DecidableEq ι]

/-- index of the first block containing `u` (`blocks.length` if none): Python's `buckets` -/
def blockIdx (blocks : List (List ι)) (u : ι) : Nat := blocks.findIdx (fun N => decide (u ∈ N))

/-- one pass over the arcs: add the targets of arcs whose source is already reached -/
def sccStep (arcs : List (ι × ι)) (s : List ι) : List ι :=
  arcs.foldl (fun s e => if e.1 ∈ s ∧ e.2 ∉ s then e.2 :: s else s) s

/-- fuel-bounded frontier iteration; stops as soon as a pass adds nothing -/
def sccReach (arcs : List (ι × ι)) : Nat → List ι → List ι
  | 0, s => s
  | n+1, s => if (sccStep arcs s).length = s.length then s else sccReach arcs n (sccStep arcs s)

/-- the block is strongly connected by arcs inside the block: its first node reaches every node
of the block, and is reached from every node of the block -/
def sccBlockOk (arcs : List (ι × ι)) (N : List ι) : Bool :=
  match N with
  | [] => false
  | h :: _ =>
    let a := arcs.filter (fun e => decide (e.1 ∈ N) && decide (e.2 ∈ N))
    let fw := sccReach a (N.length + 1) [h]
    let bw := sccReach (a.map fun e => (e.2, e.1)) (N.length + 1) [h]
    N.all (fun v => decide (v ∈ fw)) && N.all (fun v => decide (v ∈ bw))

/-- `sccCheck g arcs blocks`: `blocks` is the list of strongly connected components of the graph
`(g.nodes, arcs)`, sources first.  (a) the blocks are non-empty, duplicate-free, pairwise
disjoint and cover exactly `g.nodes`, and all arc endpoints are nodes; (b) each block is strongly
connected; (c) no arc goes from a later block to an earlier block. -/
def sccCheck {K : Type} (g : WGraph ι K) (arcs : List (ι × ι)) (blocks : List (List ι)) : Bool :=
  decide blocks.flatten.Nodup
  && blocks.all (fun N => !N.isEmpty)
  && g.nodes.all (fun u => decide (u ∈ blocks.flatten))
  && blocks.flatten.all (fun u => decide (u ∈ g.nodes))
  && arcs.all (fun e => decide (e.1 ∈ g.nodes) && decide (e.2 ∈ g.nodes))
  && blocks.all (sccBlockOk arcs)
  && arcs.all (fun e => decide (blockIdx blocks e.1 ≤ blockIdx blocks e.2))

end
end Genlm
