import Lean.Data.Json
import GenlmModel.Model.Semi
import GenlmModel.Model.Wfsa
/-! JSON codec of the line protocol (driver side). -/
namespace Genlm
open Lean (Json)

abbrev E := Except String

partial def sxOfJson : Json → E Sx
  | .str s => pure (.s s)
  | .num n => if n.exponent = 0 then pure (.i n.mantissa) else throw s!"non-integer symbol {n}"
  | .null => pure (Sx.tag "None" [])
  | .bool b => pure (Sx.tag (if b then "True" else "False") [])
  | .arr a => do
      let xs ← a.toList.mapM sxOfJson
      pure (Sx.tup xs)
  | .obj o => do
      let t ← match o.get? "t" with | some (.str t) => pure t | _ => throw "symbol object without t"
      let a ← match o.get? "a" with | some (.arr a) => pure a | _ => throw "symbol object without a"
      let xs ← a.toList.mapM sxOfJson
      pure (Sx.tag t xs)

def sxListOf? : Sx → Option (List Sx)
  | .nil => some []
  | .cons a b => (sxListOf? b).map (a :: ·)
  | _ => none

partial def sxToJson : Sx → Json
  | .s v => .str v
  | .i v => .num ⟨v, 0⟩
  | .nil => Json.mkObj [("t", "nil"), ("a", .arr #[])]
  | .cons (.s t) b =>
      match sxListOf? b with
      | some xs =>
          let a := Json.arr (xs.map sxToJson).toArray
          if t = "T" then a else Json.mkObj [("t", .str t), ("a", a)]
      | none => Json.mkObj [("t", "cons"), ("a", .arr #[.str t, sxToJson b])]
  | .cons a b => Json.mkObj [("t", "cons"), ("a", .arr #[sxToJson a, sxToJson b])]

def ratOfString (s : String) : E Rat :=
  match s.splitOn "/" with
  | [n] => match n.toInt? with | some k => pure (k : Rat) | none => throw s!"bad rat {s}"
  | [n, d] => match n.toInt?, d.toNat? with
      | some k, some m => if m = 0 then throw "zero denominator" else pure (mkRat k m)
      | _, _ => throw s!"bad rat {s}"
  | _ => throw s!"bad rat {s}"

def ratToString (q : Rat) : String :=
  if q.den = 1 then toString q.num else s!"{q.num}/{q.den}"

class Wt (K : Type) extends Add K, Mul K, Zero K, One K where
  ofJson : Json → E K
  toJson : K → Json
  /-- size in bits of the representation (exact rationals can explode on cyclic systems) -/
  bits : K → Nat := fun _ => 0

def ratOfJson : Json → E Rat
  | .str s => ratOfString s
  | .num n => if n.exponent = 0 then pure (n.mantissa : Rat) else
      pure (mkRat n.mantissa (10 ^ n.exponent))
  | j => throw s!"bad weight {j}"

instance : Wt Rat where
  ofJson := ratOfJson
  toJson q := .str (ratToString q)
  bits q := q.num.natAbs.log2 + q.den.log2

instance : Wt BoolW where
  ofJson
    | .bool b => pure ⟨b⟩
    | j => throw s!"bad bool weight {j}"
  toJson b := .bool b.b

instance : Wt MaxT where
  ofJson j := do pure ⟨← ratOfJson j⟩
  toJson q := .str (ratToString q.v)
  bits q := q.v.num.natAbs.log2 + q.v.den.log2

/-- IEEE doubles: NOT a semiring; used only for deep truncations compared with a tolerance -/
instance : Wt Float where
  add := Float.add
  mul := Float.mul
  zero := 0.0
  one := 1.0
  ofJson j := do let q ← ratOfJson j; pure (Float.ofInt q.num / Float.ofNat q.den)
  toJson f := Json.mkObj [("bits", .num ⟨f.toBits.toNat, 0⟩)]

instance : Wt LangW where
  ofJson j := match j with
    | .arr a => pure (LangW.canon (a.toList.filterMap fun x => match x with | .str s => some s | _ => none))
    | _ => throw "bad language weight"
  toJson a := .arr (a.l.map Json.str).toArray

instance {K : Type} [Wt K] : Wt (Expc K) where
  ofJson
    | .arr #[a, b] => do pure ⟨← Wt.ofJson a, ← Wt.ofJson b⟩
    | j => throw s!"bad pair weight {j}"
  toJson e := .arr #[Wt.toJson e.p, Wt.toJson e.r]
  bits e := max (Wt.bits e.p) (Wt.bits e.r)

def getField (j : Json) (k : String) : E Json :=
  match j.getObjVal? k with
  | .ok v => pure v
  | .error _ => throw s!"missing field {k}"

def getArr (j : Json) : E (List Json) :=
  match j with
  | .arr a => pure a.toList
  | _ => throw "expected array"

def getNat (j : Json) : E Nat :=
  match j with
  | .num n => if n.exponent = 0 ∧ 0 ≤ n.mantissa then pure n.mantissa.toNat else throw "expected nat"
  | _ => throw "expected nat"

def getStr (j : Json) : E String :=
  match j with
  | .str s => pure s
  | _ => throw "expected string"

def sxList (j : Json) : E (List Sx) := do (← getArr j).mapM sxOfJson

section
variable {K : Type} [Wt K]

/-- rule = [w, head, [body…]] -/
def ruleOfJson (j : Json) : E (Rule Sx K) := do
  match ← getArr j with
  | [w, h, b] => pure ⟨← Wt.ofJson w, ← sxOfJson h, ← sxList b⟩
  | _ => throw "bad rule"

def ruleToJson (r : Rule Sx K) : Json :=
  .arr #[Wt.toJson r.w, sxToJson r.head, .arr (r.body.map sxToJson).toArray]

/-- cfg = {"S":…, "V":[…], "rules":[…]} -/
def cfgOfJson (j : Json) : E (CFG Sx K) := do
  let S ← sxOfJson (← getField j "S")
  let V ← sxList (← getField j "V")
  let rules ← (← getArr (← getField j "rules")).mapM ruleOfJson
  pure ⟨S, V, rules⟩

def cfgToJson (G : CFG Sx K) : Json :=
  Json.mkObj [("S", sxToJson G.S), ("V", .arr (G.V.map sxToJson).toArray),
              ("rules", .arr (G.rules.map ruleToJson).toArray)]
end

section
variable {K : Type} [Wt K]

def labelOfSx (x : Sx) : Option Sx := if x = Sx.eps then none else some x
def labelToJson : Option Sx → Json
  | none => .str ""
  | some a => sxToJson a

def pairsOfJson (j : Json) : E (List (Sx × K)) := do
  (← getArr j).mapM fun e => do
    match ← getArr e with
    | [a, w] => pure ((← sxOfJson a), (← Wt.ofJson w))
    | _ => throw "bad pair"

def pairsToJson (l : List (Sx × K)) : Json :=
  .arr (l.map fun e => Json.arr #[sxToJson e.1, Wt.toJson e.2]).toArray

/-- wfsa = {"start":[[q,w]…],"stop":[[q,w]…],"arcs":[[i,a,j,w]…]} ; label "" is ε -/
def wfsaOfJson (j : Json) : E (WFSA Sx Sx K) := do
  let start ← pairsOfJson (← getField j "start")
  let stop ← pairsOfJson (← getField j "stop")
  let arcs ← (← getArr (← getField j "arcs")).mapM fun e => do
    match ← getArr e with
    | [i, a, k, w] => pure (⟨← sxOfJson i, labelOfSx (← sxOfJson a), ← sxOfJson k, ← Wt.ofJson w⟩ : Arc Sx Sx K)
    | _ => throw "bad arc"
  pure ⟨start, stop, arcs⟩

def wfsaToJson (A : WFSA Sx Sx K) : Json :=
  Json.mkObj [("start", pairsToJson A.start), ("stop", pairsToJson A.stop),
    ("arcs", .arr (A.arcs.map fun e => Json.arr #[sxToJson e.src, labelToJson e.lbl, sxToJson e.dst, Wt.toJson e.w]).toArray)]

/-- fst = same with arcs [[i,a,b,j,w]…] -/
def fstOfJson (j : Json) : E (FST Sx Sx K) := do
  let start ← pairsOfJson (← getField j "start")
  let stop ← pairsOfJson (← getField j "stop")
  let arcs ← (← getArr (← getField j "arcs")).mapM fun e => do
    match ← getArr e with
    | [i, a, b, k, w] => pure (⟨← sxOfJson i, labelOfSx (← sxOfJson a), labelOfSx (← sxOfJson b), ← sxOfJson k, ← Wt.ofJson w⟩ : TArc Sx Sx K)
    | _ => throw "bad fst arc"
  pure ⟨start, stop, arcs⟩

def fstToJson (T : FST Sx Sx K) : Json :=
  Json.mkObj [("start", pairsToJson T.start), ("stop", pairsToJson T.stop),
    ("arcs", .arr (T.arcs.map fun e => Json.arr #[sxToJson e.src, labelToJson e.inp, labelToJson e.out, sxToJson e.dst, Wt.toJson e.w]).toArray)]
end

end Genlm
