import GenlmModel.Model.Transform
/-! Decidable structural predicates (the postconditions of C07), evaluated by the driver on the
grammars the real code produced. -/
namespace Genlm
section
variable {σ K : Type} [DecidableEq σ] [DecidableEq K] [Add K] [Mul K] [Zero K] [One K]

/-- `CFG.in_cnf` (plus: heads are not terminals) -/
def inCNFb (G : CFG σ K) : Bool :=
  G.rules.all fun r => decide (r.head ∉ G.V) &&
    match r.body with
    | [] => decide (r.head = G.S)
    | [a] => decide (a ∈ G.V)
    | [B, C] => decide (B ∉ G.V ∧ C ∉ G.V ∧ B ≠ G.S ∧ C ≠ G.S)
    | _ => false

def startOffRhs (G : CFG σ K) : Bool := decide (G.S ∉ bodySyms G)

def noNullaryExceptStart (G : CFG σ K) : Bool :=
  G.rules.all fun r => r.body ≠ [] || decide (r.head = G.S)

def noUnary (G : CFG σ K) : Bool := G.rules.all fun r => !isUnaryRule G.V r

def arityLe2 (G : CFG σ K) : Bool := G.rules.all fun r => r.body.length ≤ 2

/-- terminals occur only in rules of the form `A → a` -/
def terminalsSeparated (G : CFG σ K) : Bool :=
  G.rules.all fun r => (r.body.all (· ∉ G.V)) || (r.body.length = 1)

def unaryEdges (G : CFG σ K) : List (σ × σ) :=
  G.rules.filterMap fun r => match r.body with
    | [y] => if y ∈ G.V then none else some (r.head, y)
    | _ => none

/-- symbols reachable from `X` by one or more unary rules -/
def unaryReach (G : CFG σ K) (X : σ) : List σ :=
  let es := unaryEdges G
  hlfp (((es.filter (fun e => e.1 = X)).map fun e => (⟨[], e.2⟩ : Clause σ)) ++ es.map fun e => ⟨[e.1], e.2⟩)

def noUnaryCycle (G : CFG σ K) : Bool :=
  (unaryEdges G).all fun e => decide (e.1 ∉ unaryReach G e.1)

/-- every symbol of every rule is reachable from the start symbol and derives some terminal string -/
def trimUseful (G : CFG σ K) : Bool :=
  let C := generating G
  let T := reachable G C
  G.rules.all fun r => (r.head :: r.body).all fun s => decide (s ∈ C ∧ s ∈ T)

end
end Genlm
