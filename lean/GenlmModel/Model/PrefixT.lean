import GenlmModel.Model.Wfsa
/-!
Mirror model of `prefix_transducer(R, V)` (`genlm/grammar/cfg.py`):

```python
P = FST(R)
P.add_I(0, R.one); P.add_I(1, R.one)
for x in V:
    P.add_arc(0, (x, x), 0, R.one)
    P.add_arc(0, (x, x), 1, R.one)
    P.add_arc(1, (x, EPSILON), 1, R.one)
P.add_F(1, R.one)
```

State `0` copies, state `1` drops; the move `0 → 1` copies one last symbol.  Both states are
initial, so the empty prefix is produced by starting in state `1`.  NO Mathlib.
-/
namespace Genlm
section
variable {σ K : Type} [One K]

def prefixT (V : List σ) : FST Nat σ K :=
  { start := [(0, 1), (1, 1)]
    stop := [(1, 1)]
    arcs := V.flatMap fun x =>
      [⟨0, some x, some x, 0, 1⟩, ⟨0, some x, some x, 1, 1⟩, ⟨1, some x, none, 1, 1⟩] }

end
end Genlm
