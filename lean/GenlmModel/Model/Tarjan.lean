import GenlmModel.Model.Linear
/-! Mirror model of `scc_decomposition(successors, roots)` (`genlm/grammar/linear.py`): Tarjan's
algorithm as the library writes it.  No Mathlib.

```
lowest = {}; stack = []; trail = set(); t = 0
def dfs(v):
    nonlocal t
    t += 1; num = t; lowest[v] = t; trail.add(v); stack.append(v)
    for w in successors(v):
        if lowest.get(w) is None:   yield from dfs(w); lowest[v] = min(lowest[v], lowest[w])
        elif w in trail:            lowest[v] = min(lowest[v], lowest[w])
    if lowest[v] == num:
        C = []
        while True:
            w = stack.pop(); trail.remove(w); C.append(w)
            if w == v: break
        yield frozenset(C)
for v in roots:
    if lowest.get(v) is None: yield from dfs(v)
```

Representation.
* `successors` is `succ : ι → List ι`, `roots : List ι`: the iteration orders of the Python sets are the
  orders of the lists *as given*; the theorems quantify over all of them.
* the dict `lowest` is a function `ι → Option Nat` (`none` = key absent); note that the code keeps a
  single dict which serves both as "visited" mark / DFS number and as low-link, and that it reads
  `lowest[w]` (not the DFS number of `w`) in the back-edge branch.
* `stack` is a list whose head is the top; `trail` is a list used as a set (`add` = cons,
  `remove w` = delete every copy, `in` = membership).
* the generator's `yield`s are collected in `out`, in emission order (`list(scc_decomposition(..))`);
  a component is the list `C` in pop order (the code wraps it in a `frozenset`: only membership
  matters).
* the recursion of `dfs` is bounded by `fuel` (recursion *depth*; the `for` loop is a `foldl`).
  Running out of fuel, popping from an empty stack (`IndexError`) or reading a missing key of
  `lowest` (`KeyError`) clears the flag `ok`; `tarjan_correct` proves that none of them happens
  when `fuel ≥` the number of nodes. -/
namespace Genlm

structure TjState (ι : Type) where
  lowest : ι → Option Nat
  stack : List ι
  trail : List ι
  t : Nat
  out : List (List ι)
  ok : Bool

section
variable {ι : Type} [DecidableEq ι]

def TjState.init : TjState ι := ⟨fun _ => none, [], [], 0, [], true⟩

/-- `lowest[v] = n` -/
def tjSet (low : ι → Option Nat) (v : ι) (n : Nat) : ι → Option Nat :=
  fun u => if u = v then some n else low u

/-- `lowest[v] = min(lowest[v], lowest[w])` (a missing key is a `KeyError`: flag cleared) -/
def tjMin (s : TjState ι) (v w : ι) : TjState ι :=
  match s.lowest v, s.lowest w with
  | some a, some b => { s with lowest := tjSet s.lowest v (min a b) }
  | _, _ => { s with ok := false }

/-- the pop loop `while True: w = stack.pop(); trail.remove(w); C.append(w); if w == v: break`;
returns `(stack, trail, C, ok)` -/
def tjPop (v : ι) : List ι → List ι → List ι → List ι × List ι × List ι × Bool
  | [], trail, C => ([], trail, C, false)
  | w :: st, trail, C =>
    if w = v then (st, trail.filter (fun u => !decide (u = w)), C ++ [w], true)
    else tjPop v st (trail.filter (fun u => !decide (u = w))) (C ++ [w])

/-- the body of `for w in successors(v)`; `rec` is the recursive call `dfs` -/
def tjStep (rec : ι → TjState ι → TjState ι) (v : ι) (s : TjState ι) (w : ι) : TjState ι :=
  match s.lowest w with
  | none => tjMin (rec w s) v w
  | some _ => if w ∈ s.trail then tjMin s v w else s

/-- `if lowest[v] == num: … yield frozenset(C)` -/
def tjFinish (v : ι) (num : Nat) (s : TjState ι) : TjState ι :=
  match s.lowest v with
  | none => { s with ok := false }
  | some l =>
    if l = num then
      let r := tjPop v s.stack s.trail []
      { s with stack := r.1, trail := r.2.1, out := s.out ++ [r.2.2.1], ok := s.ok && r.2.2.2 }
    else s

/-- `dfs(v)` with recursion depth bounded by the fuel -/
def tjVisit (succ : ι → List ι) : Nat → ι → TjState ι → TjState ι
  | 0, _, s => { s with ok := false }
  | n+1, v, s =>
    let num := s.t + 1
    let s1 : TjState ι :=
      { s with t := num, lowest := tjSet s.lowest v num, trail := v :: s.trail, stack := v :: s.stack }
    tjFinish v num ((succ v).foldl (tjStep (tjVisit succ n) v) s1)

/-- one iteration of `for v in roots: if lowest.get(v) is None: yield from dfs(v)` -/
def tjRoot (succ : ι → List ι) (fuel : Nat) (s : TjState ι) (v : ι) : TjState ι :=
  match s.lowest v with
  | none => tjVisit succ fuel v s
  | some _ => s

/-- the final state of `scc_decomposition(succ, roots)` -/
def tjRun (succ : ι → List ι) (roots : List ι) (fuel : Nat) : TjState ι :=
  roots.foldl (tjRoot succ fuel) TjState.init

/-- `list(scc_decomposition(succ, roots))` -/
def tarjan (succ : ι → List ι) (roots : List ι) (fuel : Nat) : List (List ι) :=
  (tjRun succ roots fuel).out

/-- `WeightedGraph.blocks = list(scc_decomposition(self.incoming.__getitem__, self.N))`: the DFS runs
on the *reversed* graph (`successors = incoming`), rooted at every node, and the components are kept in
emission order. -/
def WGraph.tarjanBlocks {K : Type} (g : WGraph ι K) : List (List ι) :=
  tarjan g.incoming g.nodes g.nodes.length

end
end Genlm
