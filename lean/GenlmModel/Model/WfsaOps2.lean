import GenlmModel.Model.WfsaOps
import GenlmModel.Model.Horn
/-! Executable mirror models of `genlm/grammar/wfsa/base.py` (class `WFSA`), second part:
`push`, `total_weight`, `accessible`, `co_accessible`, `_trim`, `trim`, `trim_vals` (part 1, below),
`epsremove` (part 2), `to_cfg` (part 3), `to_bytes` (part 4, when present).  No Mathlib.
Correctness: `Proofs/Wfsa2.lean`.

Representation remarks (see `Model/Wfsa.lean`, `Model/WfsaOps.lean`): `start`, `stop`, `arcs` are
lists whose repeated keys mean the sum.  Python reads the *accumulated* weights `self.start[i]`,
`self.stop[i]` in `push` and `_trim`; the models do the same with `wlook`.  Python sets
(`self.states`, `active`) are modelled by duplicate-free lists (`WFSA.states`, `eraseDups`).
The quantities Python obtains from linear solvers (`self.backward`, `self.forward`, the ε closure)
are parameters of the models. -/
namespace Genlm

section
variable {ι σ K : Type} [DecidableEq ι] [DecidableEq σ] [DecidableEq K]
  [Add K] [Mul K] [Zero K] [One K]

/-- the states that `push` keeps: `for i in self.states: if V[i] == zero: continue` -/
def WFSA.live (A : WFSA ι σ K) (V : ι → K) : List ι := A.states.filter fun i => V i ≠ 0

/-- `WFSA.push` (Mohri's weight pushing) relative to the potential `V` (Python: `V = self.backward`)
and the inverse `inv` (Python: `v ** (-1)`).  Exactly the loop: for every state `i` with `V i ≠ 0`,
`add_I(i, start[i] * V[i])`, `add_F(i, V[i]⁻¹ * stop[i])`, and for every arc `i -a-> j` (`w`)
`add_arc(i, a, j, V[i]⁻¹ * w * V[j])` — arcs into states with `V j = 0` are kept, with weight `0`. -/
def WFSA.push (inv : K → K) (A : WFSA ι σ K) (V : ι → K) : WFSA ι σ K where
  start := (A.live V).map fun i => (i, wlook A.start i * V i)
  stop := (A.live V).map fun i => (i, inv (V i) * wlook A.stop i)
  arcs := (A.live V).flatMap fun i => (A.arcs.filter fun e => e.src = i).map fun e =>
    ⟨i, e.lbl, e.dst, inv (V i) * e.w * V e.dst⟩

/-- `WFSA.total_weight` relative to the backward weights `b` (Python: `b = self.backward`):
`sum(self.start[i] * b[i] for i in self.start)` -/
def WFSA.totalWeight (A : WFSA ι σ K) (b : ι → K) : K :=
  lsum ((A.start.map (·.1)).eraseDups.map fun i => wlook A.start i * b i)

/-- the Horn program whose least model is `WFSA.accessible`: a fact `⊢ q` for every initial state
(`self.I`: accumulated initial weight non-zero — the behaviour after the fix), and a clause
`src ⊢ dst` for every arc (whatever its weight, as `self.arcs(P)` yields every stored arc) -/
def WFSA.accClauses (A : WFSA ι σ K) : List (Clause ι) :=
  ((A.start.filter fun s => wlook A.start s.1 ≠ 0).map fun s => ⟨[], s.1⟩)
    ++ A.arcs.map fun e => ⟨[e.src], e.dst⟩

/-- `WFSA.accessible`: the states reachable from an initial state (graph search = least model) -/
def WFSA.accessible (A : WFSA ι σ K) : List ι := hlfp A.accClauses

/-- `WFSA.co_accessible = self.reverse.accessible()` -/
def WFSA.coaccessible (A : WFSA ι σ K) : List ι := A.reverse.accessible

/-- `WFSA._trim(active)`: for every `i` in the set `active`: `add_I(i, start[i])`, `add_F(i, stop[i])`
(accumulated weights, zeros included) and the arcs `i -a-> j` with `j` in `active` -/
def WFSA.trimTo (A : WFSA ι σ K) (active : List ι) : WFSA ι σ K where
  start := active.eraseDups.map fun i => (i, wlook A.start i)
  stop := active.eraseDups.map fun i => (i, wlook A.stop i)
  arcs := active.eraseDups.flatMap fun i => A.arcs.filter fun e => e.src = i ∧ e.dst ∈ active

/-- `WFSA.trim = self._trim(self.accessible() & self.co_accessible())` -/
def WFSA.trim (A : WFSA ι σ K) : WFSA ι σ K :=
  A.trimTo (A.accessible.filter fun i => i ∈ A.coaccessible)

/-- `WFSA.trim_vals` relative to the forward / backward weights
(Python: `self.forward`, `self.backward`, the solutions of the linear systems) -/
def WFSA.trimVals (A : WFSA ι σ K) (fwd bwd : ι → K) : WFSA ι σ K :=
  A.trimTo (A.states.filter fun i => fwd i ≠ 0 ∧ bwd i ≠ 0)

end

/-! ## part 2

Mirror model of `WFSA.epsremove` (`genlm/grammar/wfsa/base.py`, lines 167-181) and of the ε graph
`WFSA.E` it is computed from.

```python
E = self.E; S = E.closure()
new = self.spawn(keep_stop=True)
for i, w_i in self.I:
    for k in S.outgoing[i]: new.add_I(k, w_i * S[i, k])
for i, a, j, w_ij in self.arcs():
    if a == EPSILON: continue
    for k in S.outgoing[j]: new.add_arc(i, a, k, w_ij * S[j, k])
```

The closure matrix `S` and its support `S.outgoing` are parameters of the model (`S : ι → ι → K`,
`out : ι → List ι`): the model is the double loop *as it is*, whatever `closure()` returned.
Python's `self.I` skips initial entries whose accumulated weight is zero; the model keeps them (as
the other WFSA models do; they contribute `0` to every path sum). -/

section
variable {ι σ K : Type}

/-- the ε-only sub-automaton (the weighted graph `WFSA.E`, kept as a machine so that `Qk` gives the
powers of the ε matrix: `Qk A.epsPart m i [] k = (E^m)[i,k]`) -/
def WFSA.epsPart (A : WFSA ι σ K) : WFSA ι σ K :=
  ⟨A.start, A.stop, A.arcs.filter (fun e => e.lbl.isNone)⟩

/-- `WFSA.epsremove`, given the closure matrix `S` (`S[i,k]`) and its adjacency `out` (`S.outgoing[i]`) -/
def WFSA.epsremove [Mul K] (A : WFSA ι σ K) (S : ι → ι → K) (out : ι → List ι) : WFSA ι σ K where
  start := A.start.flatMap fun s => (out s.1).map fun k => (k, s.2 * S s.1 k)
  stop := A.stop
  arcs := (A.arcs.filter (fun e => e.lbl.isSome)).flatMap fun e =>
    (out e.dst).map fun k => ⟨e.src, e.lbl, k, e.w * S e.dst k⟩

end

section
variable {ι σ K : Type} [DecidableEq ι] [DecidableEq σ] [Add K] [Mul K] [Zero K] [One K]

/-- the truncated closure `Σ_{m ≤ N} E^m` of the ε matrix (equal to `E.closure()` when every ε path
has at most `N` arcs) -/
def WFSA.epsStarN (A : WFSA ι σ K) (N : Nat) (i k : ι) : K :=
  lsum ((List.range (N+1)).map fun m => Qk A.epsPart m i [] k)

end

/-! ## part 3

Executable mirror model of `WFSA.to_cfg` (`genlm/grammar/wfsa/base.py`), both recursion modes.

States become nonterminals, so states and symbols share one type `σ` (in Python both are arbitrary
hashable names).  The renaming loop at the top of `to_cfg`

    while S in self.states or not V.isdisjoint(self.states): self = self.rename(lambda q: (q,))

is *not* modelled: it is what establishes the hypotheses `S ∉ A.states` and
`∀ i ∈ A.states, i ∉ A.labels` of the correctness theorems (`Proofs/Wfsa2.lean`), and a state
renaming does not change the weighted language (`mapStates_PN`).

Representation remarks (as in `Model/WfsaOps.lean`): Python's `I`, `F` and `CFG.add` skip entries whose
weight is `R.zero`; the model keeps them (a rule of weight `0` contributes `0` to every derivation sum).
Accumulated charts are lists with possibly repeated keys, whose meaning is the sum; the rules are
emitted in the order of the Python loops. -/

section
variable {ι σ K : Type} [DecidableEq σ]

/-- `self.alphabet - {EPSILON}`: the labels of the arcs, without ε and without repetitions -/
def WFSA.labels (A : WFSA ι σ K) : List σ := (A.arcs.filterMap (·.lbl)).eraseDups

/-- `to_cfg(S, recursion="right")`:
`S → i (w)` for initial entries, `i → ε (w)` for final entries,
`i → j (w)` for ε arcs and `i → a j (w)` for the other arcs `i --a/w--> j`. -/
def WFSA.toCfgRight (A : WFSA σ σ K) (S : σ) : CFG σ K where
  S := S
  V := A.labels
  rules := A.start.map (fun s => ⟨s.2, S, [s.1]⟩) ++ A.stop.map (fun f => ⟨f.2, f.1, []⟩)
    ++ A.arcs.map fun e =>
      match e.lbl with
      | none => ⟨e.w, e.src, [e.dst]⟩
      | some a => ⟨e.w, e.src, [a, e.dst]⟩

/-- `to_cfg(S, recursion="left")`:
`S → f (w)` for final entries, `i → ε (w)` for initial entries,
`j → i (w)` for ε arcs and `j → i a (w)` for the other arcs `i --a/w--> j`. -/
def WFSA.toCfgLeft (A : WFSA σ σ K) (S : σ) : CFG σ K where
  S := S
  V := A.labels
  rules := A.stop.map (fun f => ⟨f.2, S, [f.1]⟩) ++ A.start.map (fun s => ⟨s.2, s.1, []⟩)
    ++ A.arcs.map fun e =>
      match e.lbl with
      | none => ⟨e.w, e.dst, [e.src]⟩
      | some a => ⟨e.w, e.dst, [e.src, a]⟩

end

/-! ## part 4

Mirror model of `WFSA.to_bytes` (`genlm/grammar/wfsa/base.py`): every arc `i --a/w--> j` whose
label is a string `a` is replaced by a chain of arcs spelling the bytes `enc a` of `a`
(Python: `a.encode("utf-8")`); the weight `w` sits on the last arc of the chain, the other chain arcs
weigh `one`; ε arcs, initial and final weights are kept.

Representation remarks.
* Python names the fresh intermediate states `("_bytes", i, a, j, counter)`, with one counter shared by
  all arcs (it is never reset).  Python's `self.arcs()` enumerates a dictionary `δ[i][a][j]`, so the
  triples `(i,a,j)` are pairwise distinct and the name is determined by the triple and the *position*
  of the state inside the chain of that triple; the model uses that position (`0` for the first
  intermediate state of every chain): `Sum.inr (i,a,j,t)`.  The renaming
  `(i,a,j,t) ↦ ("_bytes",i,a,j,offset(i,a,j)+t)` is injective, hence the machines are isomorphic.
  The model works on lists of arcs, where a triple may be repeated; the correctness theorem then
  needs (and the Proofs file shows that it really needs) pairwise distinct triples.
* Python's `EPSILON` is the empty string, so an arc whose label has no bytes is never met by the
  multi-byte branch (Python would fail on `bs[0]`); the model emits no arc for it.
* Labels that are neither ε nor `str` raise `ValueError` in Python; here every label has an encoding. -/

/-- states of the byte machine: `inl i` is the original state `i`, `inr (i,a,j,t)` the `t`-th fresh
state of the chain replacing the arc `(i,a,j)` -/
abbrev BState (ι σ : Type) := ι ⊕ (ι × σ × ι × Nat)

section
variable {ι σ β K : Type}

/-- the loop body of `to_bytes` for one arc `(i,a,j,w)`: `cur` is Python's `curr` (initially `i`),
`t` the counter, the list what remains of `bs`.  One byte left: `add_arc(curr, b, j, w)`; more:
`next = get_new_state(); add_arc(curr, b, next, one)`. -/
def chainArcs [One K] (i : ι) (a : σ) (j : ι) (w : K) :
    BState ι σ → Nat → List β → List (Arc (BState ι σ) β K)
  | _, _, [] => []
  | cur, _, [b] => [⟨cur, some b, .inl j, w⟩]
  | cur, t, b :: b' :: bs =>
    ⟨cur, some b, .inr (i, a, j, t), 1⟩ :: chainArcs i a j w (.inr (i, a, j, t)) (t+1) (b' :: bs)

/-- `WFSA.to_bytes` with the encoding `enc` -/
def WFSA.toBytes [One K] (enc : σ → List β) (A : WFSA ι σ K) : WFSA (BState ι σ) β K where
  start := A.start.map fun s => (.inl s.1, s.2)
  stop := A.stop.map fun s => (.inl s.1, s.2)
  arcs := A.arcs.flatMap fun e =>
    match e.lbl with
    | none => [⟨.inl e.src, none, .inl e.dst, e.w⟩]
    | some a => chainArcs e.src a e.dst e.w (.inl e.src) 0 (enc a)

/-! #### positional description of a chain (specification, proved equal to `chainArcs`) -/

/-- the source of the `p`-th arc of the chain of `(i,a,j)` -/
def chainSrc (i : ι) (a : σ) (j : ι) : Nat → BState ι σ
  | 0 => .inl i
  | p+1 => .inr (i, a, j, p)

/-- the target of the `p`-th arc of a chain of `len` arcs -/
def chainDst (i : ι) (a : σ) (j : ι) (len p : Nat) : BState ι σ :=
  if p + 1 = len then .inl j else .inr (i, a, j, p)

/-- the weight of the `p`-th arc of a chain of `len` arcs -/
def chainW [One K] (w : K) (len p : Nat) : K := if p + 1 = len then w else 1

def chainArcsPos [One K] (i : ι) (a : σ) (j : ι) (w : K) (bs : List β) : List (Arc (BState ι σ) β K) :=
  (List.range bs.length).flatMap fun p =>
    match bs[p]? with
    | some b => [⟨chainSrc i a j p, some b, chainDst i a j bs.length p, chainW w bs.length p⟩]
    | none => []

end

section
variable {ι σ β K : Type} [DecidableEq ι] [DecidableEq σ] [DecidableEq β]


/-- the decodings of the byte string `bs` over the alphabet `alph` (all of them when the fuel is at
least `bs.length` and no symbol has an empty encoding) -/
def decs (enc : σ → List β) (alph : List σ) : Nat → List β → List (List σ)
  | 0, bs => if bs = [] then [[]] else []
  | n+1, bs => (if bs = [] then [[]] else []) ++ alph.flatMap fun a =>
      if (enc a).isPrefixOf bs then (decs enc alph n (bs.drop (enc a).length)).map (a :: ·) else []

variable [Add K] [Mul K] [Zero K] [One K]

/-- byte-level reading of `A` itself: total weight of the paths of at most `n` arcs from `i` to `j`
whose labels, encoded and concatenated, give `bs` (ε arcs are ignored: ε-free machines only) -/
def QB (enc : σ → List β) (A : WFSA ι σ K) : Nat → ι → List β → ι → K
  | 0, i, bs, j => if i = j ∧ bs = [] then 1 else 0
  | n+1, i, bs, j => (if i = j ∧ bs = [] then 1 else 0) +
      lsum ((A.arcs.filter (fun e => e.src = i)).map fun e =>
        match e.lbl with
        | none => 0
        | some a =>
          if (enc a).isPrefixOf bs then e.w * QB enc A n e.dst (bs.drop (enc a).length) j else 0)

end

end Genlm
