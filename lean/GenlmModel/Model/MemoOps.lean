import GenlmModel.Model.Memo
/-!
The public operation sequence of the incremental parsers (`Earley`, `IncrementalCKY`):
any interleaving of `chart(prefix)` calls, `clear_cache()` and the re-seeding of the empty
prefix done by `Earley.__call__` (`self._chart[()] = [self._initial_column]`).  NO Mathlib.
-/
namespace Genlm
section MemoOps
variable {Tok Col : Type} [DecidableEq Tok]

inductive Op (Tok : Type) where
  /-- `chart(p)`: answer through the memo table, keep the updated table -/
  | chart (p : List Tok)
  /-- `clear_cache()`: `self._chart.clear()` -/
  | clear
  /-- `self._chart[()] = [self._initial_column]` (first statement of `Earley.__call__` on a
  non-empty input); the new entry shadows an older one for the same key -/
  | seed
deriving Repr, DecidableEq

/-- run a sequence of operations on the table `m`; returns the answers of the `chart` calls
(in order) and the final table -/
def runOps (init : Col) (ext : List Col → Tok → Col) :
    Memo Tok Col → List (Op Tok) → List (List Col) × Memo Tok Col
  | m, [] => ([], m)
  | m, .chart p :: ops =>
    let r := chartM init ext p m
    let rs := runOps init ext r.2 ops
    (r.1 :: rs.1, rs.2)
  | _, .clear :: ops => runOps init ext [] ops
  | m, .seed :: ops => runOps init ext (([], [init]) :: m) ops

end MemoOps
end Genlm
