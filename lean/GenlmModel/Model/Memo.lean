/-! The memo-table discipline of the incremental parsers (`Earley.chart`, `IncrementalCKY.chart`). -/
namespace Genlm
section Memo
variable {Tok Col : Type} [DecidableEq Tok]

/-- the chart of a prefix computed from scratch: one column per token -/
def pureChart (init : Col) (ext : List Col → Tok → Col) (p : List Tok) : List Col :=
  p.foldl (fun c t => c ++ [ext c t]) [init]

/-- the memo table: prefix ↦ chart -/
abbrev Memo (Tok Col : Type) := List (List Tok × List Col)
def Memo.get? (m : Memo Tok Col) (p : List Tok) : Option (List Col) := (m.find? (·.1 = p)).map (·.2)

/-- `chart(prefix)`: look up, else compute from the chart of the prefix's prefix and store. -/
def chartM (init : Col) (ext : List Col → Tok → Col) : (p : List Tok) → Memo Tok Col → List Col × Memo Tok Col
  | p, m =>
    match m.get? p with
    | some c => (c, m)
    | none =>
      match _h : p.reverse with
      | [] => ([init], (p, [init]) :: m)
      | t :: r =>
        let (c, m') := chartM init ext r.reverse m
        let c' := c ++ [ext c t]
        (c', (p, c') :: m')
termination_by p => p.length
decreasing_by
  have := congrArg List.length _h; simp at this; simp; omega

end Memo
end Genlm
