import GenlmModel.Model.Basic
/-!
Declarative semantics of the items of the Earley parser (`genlm/grammar/parse/earley.py`).

For a grammar `G`, a table `f : σ → List σ → K` of nonterminal weights (in the theorems: the limit of `WN G n`,
`Wlim`) and an input `x`:

* a *complete* item `(I, X)` of column `J` (`c_chart[(I, X)]`) is meant to hold `cval f x I J X = f X x[I:J]`;
* an *incomplete* item `(I, X, β)` of column `J` (`i_chart[(I, X, β)]`, `β` a non-empty suffix of the body of a
  rule with head `X`; the Python code interns `β` as an integer, `intern_Ys`, injectively) is meant to hold
  `ival G f x I J X β = Σ_{rules X → α β (w)} w * Wbody(α, x[I:J])`; for `I = J` this is the sum of the weights
  of the rules `X → β` (what `PREDICT` stores) as soon as no body symbol derives the empty string.

The hypotheses of the correctness theorem (`Acyc`) are decidable and are what
`cfg.nullaryremove(binarize=True).unarycycleremove().renumber()` establishes.
-/
namespace Genlm
section
variable {σ K : Type} [DecidableEq σ] [Add K] [Mul K] [Zero K] [One K]

/-- the slice `x[I:J]` -/
def seg (x : List σ) (I J : Nat) : List σ := (x.take J).drop I

/-- `Σ_{rules X → γ (w)} w * Σ_{γ = α β} E (α, β)` -/
def rawSum (G : CFG σ K) (X : σ) (E : List σ × List σ → K) : K :=
  lsum (G.rules.map fun r => if r.head = X then r.w * lsum ((splits r.body).map E) else 0)

/-- `Σ_{rules X → α β (w)} w * F α` (a rule is counted once: `β` determines `α`) -/
def dotSum (G : CFG σ K) (X : σ) (β : List σ) (F : List σ → K) : K :=
  rawSum G X (fun p => if p.2 = β then F p.1 else 0)

/-- intended value of the incomplete item `(I, X, β)` in column `J` -/
def ival (G : CFG σ K) (f : σ → List σ → K) (x : List σ) (I J : Nat) (X : σ) (β : List σ) : K :=
  dotSum G X β (fun α => Wbody G.V f α (seg x I J))

/-- intended value of the complete item `(I, X)` in column `J` -/
def cval (f : σ → List σ → K) (x : List σ) (I J : Nat) (X : σ) : K := f X (seg x I J)

/-- total weight of the rules `X → β` -/
def ruleSum (G : CFG σ K) (X : σ) (β : List σ) : K :=
  lsum (G.rules.map fun r => if r.head = X ∧ r.body = β then r.w else 0)

/-- nullary rules only at the start symbol, which then does not occur in any body
(`nullaryremove` runs `separate_start` first) -/
def NullOK (G : CFG σ K) : Prop :=
  ∀ r ∈ G.rules, r.body = [] → (r.head = G.S ∧ ∀ r' ∈ G.rules, G.S ∉ r'.body)

/-- no terminal heads a rule -/
def HeadsNT (G : CFG σ K) : Prop := ∀ r ∈ G.rules, r.head ∉ G.V

/-- `order` is a strict topological numbering of the unary graph: `X → Y` (Y a nonterminal) forces
`order Y < order X`.  In particular there are no unary cycles. -/
def TopoOrder (G : CFG σ K) (order : σ → Nat) : Prop :=
  ∀ r ∈ G.rules, r.body.length = 1 → ∀ Y ∈ r.body, Y ∉ G.V → order Y < order r.head

/-- what the preprocessing in `Earley.__init__` establishes -/
structure Acyc (G : CFG σ K) (order : σ → Nat) : Prop where
  nullOK : NullOK G
  headsNT : HeadsNT G
  topo : TopoOrder G order

/-- `M` strictly bounds the order of every head (`ORDER_MAX = 1 + max(order.values())`) -/
def OrderBound (G : CFG σ K) (order : σ → Nat) (M : Nat) : Prop := ∀ r ∈ G.rules, order r.head < M

instance (G : CFG σ K) : Decidable (NullOK G) := by unfold NullOK; infer_instance
instance (G : CFG σ K) : Decidable (HeadsNT G) := by unfold HeadsNT; infer_instance
instance (G : CFG σ K) (order : σ → Nat) : Decidable (TopoOrder G order) := by unfold TopoOrder; infer_instance
instance (G : CFG σ K) (order : σ → Nat) (M : Nat) : Decidable (OrderBound G order M) := by
  unfold OrderBound; infer_instance
instance (G : CFG σ K) (order : σ → Nat) : Decidable (Acyc G order) :=
  if h : NullOK G ∧ HeadsNT G ∧ TopoOrder G order then isTrue ⟨h.1, h.2.1, h.2.2⟩
  else isFalse fun a => h ⟨a.nullOK, a.headsNT, a.topo⟩

/-- the derivation sum of `y` from `X` for an acyclic grammar: `WN` at a level where it has stabilised
(`WN_stable`: every level `≥ |y| * M + 1` gives the same value) -/
def Wlim (G : CFG σ K) (M : Nat) (X : σ) (y : List σ) : K := WN G (y.length * M + 1) X y

end
end Genlm
