import GenlmModel.Model.Earley
/-!
`Earley.next_column` with the agenda `Q` (a `LocatorMaxHeap`) modelled literally, instead of the fixed pop
schedule of `Model/Earley.lean`:

* `_update` pushes a complete item on `Q` exactly when it creates its entry in `c_chart` (`eUpdateQ`);
* the ATTACH loop pops an item of maximal priority `-((K - I) * ORDER_MAX + order[X])` until `Q` is empty
  (`attachLoopQ`; fuel `K * |heads| + 1` = one more than the number of potential complete items, sufficient by
  `Proofs/EarleyQ.lean`);
* which of several items of equal priority the heap returns is left open: the loop takes the pop function
  `pick` as a parameter, and the theorems hold for every `pick` that returns *some* item of maximal priority
  (`PickOK`); `popMax` (the first one pushed) is one such function.

`Proofs/EarleyQ.lean` shows that the column computed this way *is* the column `nextColumnWith G sched` of
`Model/Earley.lean` for a schedule `sched` (depending on the run) that satisfies `SchedOK`, so that all
theorems about the scheduled model apply.
-/
namespace Genlm
section
variable {σ K : Type} [DecidableEq σ] [Add K] [Mul K] [Zero K] [One K]

/-- `_update(col, Q, I, X, Ys, value)`: the column, and the agenda (`Q[item] = priority` when the complete
item is new) -/
def eUpdateQ (st : ECol σ K × List (Nat × σ)) (I : Nat) (X : σ) (Ys : List σ) (v : K) :
    ECol σ K × List (Nat × σ) :=
  (eUpdate st.1 I X Ys v, if Ys = [] ∧ st.1.c_chart.has (I, X) = false then st.2 ++ [(I, X)] else st.2)

/-- `Q.pop()` with ties resolved in favour of the item pushed first -/
def popMax {α : Type} (prio : α → Int) : List α → Option (α × List α)
  | [] => none
  | a :: l =>
    match popMax prio l with
    | none => some (a, [])
    | some (m, l') => if prio m ≤ prio a then some (a, l) else some (m, a :: l')

/-- SCAN loop of `next_column` -/
def scanStepQ (prev : ECol σ K) (token : σ) (st : ECol σ K × List (Nat × σ)) : ECol σ K × List (Nat × σ) :=
  (prev.waitingFor token).foldl
    (fun st it => eUpdateQ st it.1 it.2.1 it.2.2.tail (prev.i_chart.get it)) st

/-- the body of `while Q:` for the popped item `jy`, `Q'` the agenda after the pop -/
def attachStepQ (cols : List (ECol σ K)) (col : ECol σ K) (Q' : List (Nat × σ)) (jy : Nat × σ) :
    ECol σ K × List (Nat × σ) :=
  let colJ := cols.getD jy.1 (ECol.empty jy.1)
  let y := col.c_chart.get jy
  (colJ.waitingFor jy.2).foldl
    (fun st it => eUpdateQ st it.1 it.2.1 it.2.2.tail (colJ.i_chart.get it * y)) (col, Q')

/-- ATTACH loop of `next_column`: returns the column, the sequence of popped items and the agenda left when the
fuel runs out (empty, `attachLoopQ_done`) -/
def attachLoopQ (pick : List (Nat × σ) → Option ((Nat × σ) × List (Nat × σ))) (cols : List (ECol σ K)) :
    Nat → ECol σ K → List (Nat × σ) → List (Nat × σ) → ECol σ K × List (Nat × σ) × List (Nat × σ)
  | 0, col, popped, Q => (col, popped, Q)
  | fuel + 1, col, popped, Q =>
    match pick Q with
    | none => (col, popped, Q)
    | some (jy, Q') =>
      let st := attachStepQ cols col Q' jy
      attachLoopQ pick cols fuel st.1 (popped ++ [jy]) st.2

/-- `next_column(prev_cols, token)` before the final `PREDICT`, with the agenda -/
def nextColumnPreQ (G : CFG σ K) (pick : List (Nat × σ) → Option ((Nat × σ) × List (Nat × σ)))
    (prevCols : List (ECol σ K)) (token : σ) : ECol σ K × List (Nat × σ) × List (Nat × σ) :=
  let prev := prevCols.getLastD (ECol.empty 0)
  let st := scanStepQ prev token (ECol.empty (prev.k + 1), [])
  attachLoopQ pick prevCols ((schedCands G (prev.k + 1)).length + 1) st.1 [] st.2

/-- `next_column(prev_cols, token)`, with the agenda -/
def nextColumnQ (G : CFG σ K) (pick : List (Nat × σ) → Option ((Nat × σ) × List (Nat × σ)))
    (prevCols : List (ECol σ K)) (token : σ) : ECol σ K :=
  predict G (nextColumnPreQ G pick prevCols token).1

/-- the pop function of column `k` for the priorities of the parser -/
def earleyPick (G : CFG σ K) (order : σ → Nat) (k : Nat) : List (Nat × σ) → Option ((Nat × σ) × List (Nat × σ)) :=
  popMax (itemPrio G order k)

/-- `next_column` as a function of the chart and the token; `pick k` pops the agenda of column `k` -/
def earleyExtQ (G : CFG σ K) (pick : Nat → List (Nat × σ) → Option ((Nat × σ) × List (Nat × σ)))
    (cols : List (ECol σ K)) (token : σ) : ECol σ K :=
  nextColumnQ G (pick ((cols.getLastD (ECol.empty 0)).k + 1)) cols token

/-- `Earley.chart(x)` with the agenda -/
def earleyChartQ (G : CFG σ K) (pick : Nat → List (Nat × σ) → Option ((Nat × σ) × List (Nat × σ)))
    (x : List σ) : List (ECol σ K) :=
  pureChart (earleyInit G) (earleyExtQ G pick) x

/-- `Earley.__call__(x)` with the agenda -/
def earleyCallQ (G : CFG σ K) (pick : Nat → List (Nat × σ) → Option ((Nat × σ) × List (Nat × σ)))
    (x : List σ) : K :=
  if x.length = 0 then earleyNullary G
  else ((earleyChartQ G pick x).getD x.length (ECol.empty 0)).c_chart.get (0, G.S)

end
end Genlm
