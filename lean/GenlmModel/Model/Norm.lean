import GenlmModel.Model.Cfg
import GenlmModel.Model.Semi
/-! Mirror models of `cfglm.locally_normalize` and of the grammar built by `CFG.expected_length`.

Python's `CFG.add` silently skips a rule whose weight equals the semiring's zero.  The mirror
functions below keep such rules (so that they are plain `filter`/`map` pipelines); `dropZero` is
the model of the skipping, and `Proofs/Norm.lean` proves that it never changes `WN`
(`WN_dropZero`), hence every theorem about `locallyNormalize` transfers to `locallyNormalizeDrop`. -/
namespace Genlm
section
variable {σ K : Type} [DecidableEq σ] [Add K] [Mul K] [Zero K] [One K]

/-- What `CFG.add` does to zero-weight rules: they are never stored. -/
def dropZero [DecidableEq K] (G : CFG σ K) : CFG σ K :=
  { S := G.S, V := G.V, rules := G.rules.filter (fun r => r.w ≠ 0) }

/-- New weight of rule `r` in `locally_normalize`: `r.w * Z.product(r.body) / Z[r.head]`.
`Z.product(body)` (`Chart.product`) multiplies `Z[y]` over *all* body symbols, terminals included
(the chart returned by `agenda()` has `Z[a] = 1` for every terminal `a`).  Division is
multiplication by `inv`. -/
def lnWeight (inv : K → K) (Z : σ → K) (r : Rule σ K) : K :=
  r.w * lprod (r.body.map Z) * inv (Z r.head)

/-- `locally_normalize`: same `S` and `V`; every rule (in order) whose head has `Z[head] ≠ 0` is
re-weighted by `lnWeight`; rules whose head has total weight zero are skipped (`continue`). -/
def locallyNormalize [DecidableEq K] (inv : K → K) (G : CFG σ K) (Z : σ → K) : CFG σ K :=
  { S := G.S, V := G.V,
    rules := (G.rules.filter (fun r => Z r.head ≠ 0)).map fun r =>
      { w := lnWeight inv Z r, head := r.head, body := r.body } }

/-- `locally_normalize` including the zero-skipping of `CFG.add`. -/
def locallyNormalizeDrop [DecidableEq K] (inv : K → K) (G : CFG σ K) (Z : σ → K) : CFG σ K :=
  dropZero (locallyNormalize inv G Z)

/-- number of terminal symbols in a rule body: `sum(self.is_terminal(y) for y in r.body)` -/
def numTerminals (V : List σ) (body : List σ) : Nat := body.countP (fun y => y ∈ V)

/-- The Expectation-semiring grammar built inside `CFG.expected_length`: same `S`, `V`, and every
rule weight `w` becomes `⟨w, w * #terminals(body)⟩`. -/
def liftExpectation [NatCast K] (G : CFG σ K) : CFG σ (Expc K) :=
  { S := G.S, V := G.V,
    rules := G.rules.map fun r =>
      { w := ⟨r.w, r.w * ((numTerminals G.V r.body : Nat) : K)⟩, head := r.head, body := r.body } }

end
end Genlm
