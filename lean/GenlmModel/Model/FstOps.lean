import GenlmModel.Model.WfsaOps
/-! Executable mirror models of `genlm/grammar/fst.py` (class `FST`): `T` (`FST.transpose`), `project`,
`diag`, `from_string`, `from_pairs`, `_augment_epsilon_transitions` (`FST.augment`),
`epsilon_filter_fst` (`epsilonFilter`), `_pruned_compose` with the trivial `keep` (`FST.composeRaw`,
without the reachability restriction), `__matmul__` (`FST.compose`, `FST.compose'`: the two
association branches), `__call__(x, y)` (`FST.evalN`, with the stratified `total_weight`
`FST.totalN`); plus a dynamic-programming evaluator `TPNtab` of the stratified transducer
specification `TPN` of `Model/Wfsa.lean` (ε on either tape, ε:ε arcs and cycles allowed) and the
finite candidate lists `strsEq` / `strsLe` over which the projection and composition theorems sum.

Representation remarks: see `Model/Wfsa.lean` / `Model/WfsaOps.lean` (lists with repeated keys
mean the sum; zero-weight entries are kept). -/
namespace Genlm

/-! ### dynamic programme for `TPN`

`B k i p q = Σ_f Tk T k i (x.drop p) (y.drop q) f.1 * f.2`, tabulated over
`states × {0..|x|} × {0..|y|}` and iterated on `k`; `TPNtab` accumulates `Σ_s s.2 * B k s.1 0 0`
for `k = 0..n`.  Cost: `n · |states| · (|x|+1) · (|y|+1) · |arcs|` table look-ups. -/
section
variable {ι σ K : Type} [DecidableEq ι] [DecidableEq σ] [Add K] [Mul K] [Zero K] [One K]

/-- all states mentioned by the transducer (Python's `self.states`), without repetitions -/
def FST.states (T : FST ι σ K) : List ι :=
  (T.start.map (·.1) ++ T.stop.map (·.1) ++ T.arcs.flatMap fun e => [e.src, e.dst]).eraseDups

/-- the position on a tape holding `x` after an arc labelled `l` has been taken at position `p`
(`none`: the arc cannot be taken) -/
def advance (l : Option σ) (x : List σ) (p : Nat) : Option Nat :=
  match l with
  | none => some p
  | some a =>
    match x[p]? with
    | none => none
    | some b => if a = b then some (p+1) else none

abbrev TTab (ι K : Type) := List ((ι × Nat × Nat) × K)

def TTab.get (t : TTab ι K) (i : ι) (p q : Nat) : K :=
  match t.find? (fun e => e.1 = (i, p, q)) with
  | some e => e.2
  | none => 0

def tpnKeys (T : FST ι σ K) (x y : List σ) : List (ι × Nat × Nat) :=
  T.states.flatMap fun i => (List.range (x.length + 1)).flatMap fun p =>
    (List.range (y.length + 1)).map fun q => (i, p, q)

/-- exactly `0` arcs: accept iff both tapes have been consumed -/
def tpnInitAt (T : FST ι σ K) (x y : List σ) (i : ι) (p q : Nat) : K :=
  if x.length ≤ p ∧ y.length ≤ q then wlook T.stop i else 0

/-- one more leading arc, reading from position `p` of `x` and writing from position `q` of `y` -/
def tpnStepAt (T : FST ι σ K) (x y : List σ) (g : ι → Nat → Nat → K) (i : ι) (p q : Nat) : K :=
  lsum ((T.arcs.filter (fun e => e.src = i)).map fun e =>
    match advance e.inp x p, advance e.out y q with
    | some p', some q' => e.w * g e.dst p' q'
    | _, _ => 0)

def tpnInit (T : FST ι σ K) (x y : List σ) (keys : List (ι × Nat × Nat)) : TTab ι K :=
  keys.map fun k => (k, tpnInitAt T x y k.1 k.2.1 k.2.2)

def tpnStep (T : FST ι σ K) (x y : List σ) (keys : List (ι × Nat × Nat)) (t : TTab ι K) : TTab ι K :=
  keys.map fun k => (k, tpnStepAt T x y t.get k.1 k.2.1 k.2.2)

/-- accepting mass recorded in a table: `Σ_s s.2 * t[s.1, 0, 0]` -/
def tpnAcc (T : FST ι σ K) (t : TTab ι K) : K := lsum (T.start.map fun s => s.2 * t.get s.1 0 0)

def tpnLoop (T : FST ι σ K) (x y : List σ) (keys : List (ι × Nat × Nat)) : Nat → TTab ι K → K
  | 0, t => tpnAcc T t
  | n+1, t => tpnAcc T t + tpnLoop T x y keys n (tpnStep T x y keys t)

/-- `TPN T n x y` in time polynomial in `n`, `|x|`, `|y|`, `|arcs|`, `|states|` -/
def TPNtab (T : FST ι σ K) (n : Nat) (x y : List σ) : K :=
  tpnLoop T x y (tpnKeys T x y) n (tpnInit T x y (tpnKeys T x y))

end

/-! ### `T`, `project`, `diag`, `from_string`, `from_pairs` -/
section
variable {ι σ K : Type}

/-- `FST.T`: exchange the two tapes -/
def FST.transpose (T : FST ι σ K) : FST ι σ K where
  start := T.start
  stop := T.stop
  arcs := T.arcs.map fun e => ⟨e.src, e.out, e.inp, e.dst, e.w⟩

/-- `FST.diag fsa`: the arc `a` becomes `a:a` (an ε arc becomes `ε:ε`) -/
def FST.diag (A : WFSA ι σ K) : FST ι σ K where
  start := A.start
  stop := A.stop
  arcs := A.arcs.map fun e => ⟨e.src, e.lbl, e.lbl, e.dst, e.w⟩

/-- `FST.project axis`: `axis = false` is Python's `0` (keep the input label), `axis = true` is
`1` (keep the output label) -/
def FST.project (T : FST ι σ K) (axis : Bool) : WFSA ι σ K where
  start := T.start
  stop := T.stop
  arcs := T.arcs.map fun e => ⟨e.src, if axis then e.out else e.inp, e.dst, e.w⟩

/-- `FST.from_string xs R w = FST.diag (WFSA.from_string xs R w)` -/
def FST.fromString [One K] (s : List σ) (w : K) : FST (List σ) σ K :=
  FST.diag (WFSA.fromString s w)

/-- `itertools.zip_longest(xs, ys, fillvalue=EPSILON)` -/
def zipLongest : List σ → List σ → List (Option σ × Option σ)
  | [], ys => ys.map fun b => (none, some b)
  | xs, [] => xs.map fun a => (some a, none)
  | a :: xs, b :: ys => (some a, some b) :: zipLongest xs ys

/-- states of `FST.from_pairs`: `inl 0` (initial), `inl 1` (final), `inr (i, j)` (Python's tuple
`(i, j)`: position `j` of pair number `i`) -/
abbrev PairState := Nat ⊕ (Nat × Nat)

/-- `for j, (x, y) in enumerate(...): p.add_arc((i, j), (x, y), (i, j + 1), R.one)`, from `j` on -/
def pairChainArcs [One K] (i : Nat) : Nat → List (Option σ × Option σ) → List (TArc PairState σ K)
  | _, [] => []
  | j, l :: ls => ⟨.inr (i, j), l.1, l.2, .inr (i, j+1), 1⟩ :: pairChainArcs i (j+1) ls

/-- the arcs contributed by pair number `i`: the `ε:ε` link from `0`, the chain, the `ε:ε` link
from `(i, max(len xs, len ys))` to `1` -/
def pairArcs [One K] (i : Nat) (xs ys : List σ) : List (TArc PairState σ K) :=
  ⟨.inl 0, none, none, .inr (i, 0), 1⟩ ::
    (pairChainArcs i 0 (zipLongest xs ys) ++ [⟨.inr (i, max xs.length ys.length), none, none, .inl 1, 1⟩])

/-- `for i, (xs, ys) in enumerate(pairs)`, numbering from `i` -/
def pairsArcs [One K] : Nat → List (List σ × List σ) → List (TArc PairState σ K)
  | _, [] => []
  | i, p :: ps => pairArcs i p.1 p.2 ++ pairsArcs (i+1) ps

/-- `FST.from_pairs pairs R` (the repaired code: the link arcs are labelled `(ε, ε)`) -/
def FST.fromPairs [One K] (ps : List (List σ × List σ)) : FST PairState σ K where
  start := [(.inl 0, 1)]
  stop := [(.inl 1, 1)]
  arcs := pairsArcs 0 ps

end

/-! ### finite candidate lists of strings (ranges of the sums in the projection and composition
theorems) -/
section
variable {ι σ K : Type} [DecidableEq σ]

/-- all strings of length exactly `k` over `syms` -/
def strsEq (syms : List σ) : Nat → List (List σ)
  | 0 => [[]]
  | k+1 => syms.flatMap fun a => (strsEq syms k).map fun x => a :: x

/-- all strings of length at most `k` over `syms` -/
def strsLe (syms : List σ) : Nat → List (List σ)
  | 0 => [[]]
  | k+1 => [] :: syms.flatMap fun a => (strsLe syms k).map fun x => a :: x

/-- the input symbols occurring on arcs (Python's `self.A` minus ε), without repetitions -/
def FST.inSyms (T : FST ι σ K) : List σ := (T.arcs.filterMap (·.inp)).eraseDups

/-- the output symbols occurring on arcs (Python's `self.B` minus ε), without repetitions -/
def FST.outSyms (T : FST ι σ K) : List σ := (T.arcs.filterMap (·.out)).eraseDups

end

/-! ### composition: `_augment_epsilon_transitions`, `epsilon_filter_fst`, `_pruned_compose`,
`__matmul__`

Python represents the two auxiliary symbols by the strings `ε₁ = "₁"` and `ε₂ = "₂"` (`EPSILON` is
the empty string), i.e. by ordinary members of the symbol space; the model keeps them apart from
the user symbols by extending the symbol type (`ESym σ`).  A transducer whose alphabet already
contains `"₁"` or `"₂"` is outside the model. -/

/-- symbols extended by the two auxiliary epsilons of Mohri's filter -/
inductive ESym (σ : Type) where
  | sym (a : σ)
  | e1
  | e2
deriving DecidableEq, Repr

section
variable {ι κ σ K : Type} [DecidableEq ι] [DecidableEq κ] [DecidableEq σ]

/-- the image of a label in the extended symbol space (ε stays ε) -/
def ESym.lift (l : Option σ) : Option (ESym σ) := l.map ESym.sym

/-- the label of the original symbol space denoted by an extended label: `some none` for ε,
`some (some a)` for a symbol, `none` for the auxiliary epsilons -/
def ESym.unlift : Option (ESym σ) → Option (Option σ)
  | none => some none
  | some (.sym a) => some (some a)
  | some .e1 => none
  | some .e2 => none

/-- the self-loop added on state `i` by `_augment_epsilon_transitions idx` -/
def augLoop [One K] (idx : Bool) (i : ι) : TArc ι (ESym σ) K :=
  if idx then ⟨i, some .e2, none, i, 1⟩ else ⟨i, none, some .e1, i, 1⟩

/-- the renamed copy of an arc: for `idx = 0` the output ε becomes `ε₂`, for `idx = 1` the input ε
becomes `ε₁` -/
def augArc (idx : Bool) (e : TArc ι σ K) : TArc ι (ESym σ) K :=
  if idx then
    ⟨e.src, (match e.inp with | none => some .e1 | some a => some (.sym a)), ESym.lift e.out, e.dst, e.w⟩
  else
    ⟨e.src, ESym.lift e.inp, (match e.out with | none => some .e2 | some b => some (.sym b)), e.dst, e.w⟩

/-- `_augment_epsilon_transitions idx` (`idx = false` is Python's `0`: the left operand, its output ε
becomes `ε₂` and every state gets a loop `ε:ε₁`; `idx = true` is `1`: the right operand, its input ε
becomes `ε₁` and every state gets a loop `ε₂:ε`) -/
def FST.augment [One K] (T : FST ι σ K) (idx : Bool) : FST ι (ESym σ) K where
  start := T.start
  stop := T.stop
  arcs := T.states.flatMap fun i =>
    augLoop idx i :: (T.arcs.filter (fun e => e.src = i)).map (augArc idx)

/-- `epsilon_filter_fst R Sigma`.  `Sigma` is Python's `self.B`, which contains ε as soon as some
arc has output ε; the corresponding filter arcs are `ε:ε` (they never take part in a composition,
see `composeRaw`). -/
def epsilonFilter [One K] (Sigma : List (Option σ)) : FST Nat (ESym σ) K where
  start := [(0, 1)]
  stop := [(0, 1), (1, 1), (2, 1)]
  arcs := (Sigma.flatMap fun a =>
      [⟨0, ESym.lift a, ESym.lift a, 0, 1⟩, ⟨1, ESym.lift a, ESym.lift a, 0, 1⟩,
       ⟨2, ESym.lift a, ESym.lift a, 0, 1⟩]) ++
    [⟨0, some .e2, some .e1, 0, 1⟩, ⟨0, some .e1, some .e1, 1, 1⟩, ⟨0, some .e2, some .e2, 2, 1⟩,
     ⟨1, some .e1, some .e1, 1, 1⟩, ⟨2, some .e2, some .e2, 2, 1⟩]

/-- Python's `self.B` (output labels seen by `add_arc`, ε included), without repetitions -/
def FST.outLabels (T : FST ι σ K) : List (Option σ) := (T.arcs.map (·.out)).eraseDups

/-- the product construction of `_pruned_compose` with the trivial `keep`, WITHOUT the restriction
to the state pairs reachable from the initial pairs (all pairs of entries are kept): an arc
`p -a:b-> p'` of `T1` and an arc `q -b:c-> q'` of `T2` with the same middle label `b ≠ ε` give
`(p,q) -a:c-> (p',q')` of weight `w1 * w2`.  (On a matching pair with `b = ε` Python fails
`assert b != EPSILON`; the model has no arc for such a pair.  This never happens after
`augment`.) -/
def FST.composeRaw [Mul K] (T1 : FST ι σ K) (T2 : FST κ σ K) : FST (ι × κ) σ K where
  start := T1.start.flatMap fun s1 => T2.start.map fun s2 => ((s1.1, s2.1), s1.2 * s2.2)
  stop := T1.stop.flatMap fun f1 => T2.stop.map fun f2 => ((f1.1, f2.1), f1.2 * f2.2)
  arcs := T1.arcs.flatMap fun e1 =>
    (T2.arcs.filter fun e2 => e1.out.isSome ∧ e2.inp = e1.out).map fun e2 =>
      ⟨(e1.src, e2.src), e1.inp, e2.out, (e1.dst, e2.dst), e1.w * e2.w⟩

/-- `__matmul__`, first branch (`len(self.states) < len(other.states)`):
`(T1.augment 0 ∘ filter) ∘ T2.augment 1`, over the extended symbols -/
def FST.composeL [Mul K] [One K] (T1 : FST ι σ K) (T2 : FST κ σ K) :
    FST ((ι × Nat) × κ) (ESym σ) K :=
  ((T1.augment false).composeRaw (epsilonFilter T1.outLabels)).composeRaw (T2.augment true)

/-- `__matmul__`, second branch: `T1.augment 0 ∘ (filter ∘ T2.augment 1)` -/
def FST.composeR [Mul K] [One K] (T1 : FST ι σ K) (T2 : FST κ σ K) :
    FST (ι × (Nat × κ)) (ESym σ) K :=
  (T1.augment false).composeRaw ((epsilonFilter T1.outLabels).composeRaw (T2.augment true))

/-- an arc over the original symbols, unless it carries an auxiliary epsilon -/
def TArc.unlift (e : TArc ι (ESym σ) K) : Option (TArc ι σ K) :=
  match ESym.unlift e.inp, ESym.unlift e.out with
  | some a, some b => some ⟨e.src, a, b, e.dst, e.w⟩
  | _, _ => none

/-- back to the original symbol space (a representation step without Python counterpart, where
symbols are untyped): arcs still carrying an auxiliary epsilon are dropped (there are none in
`composeL` / `composeR`) -/
def FST.unlift (T : FST ι (ESym σ) K) : FST ι σ K where
  start := T.start
  stop := T.stop
  arcs := T.arcs.filterMap TArc.unlift

/-- `T1 @ T2` (first branch of `__matmul__`) -/
def FST.compose [Mul K] [One K] (T1 : FST ι σ K) (T2 : FST κ σ K) : FST ((ι × Nat) × κ) σ K :=
  (T1.composeL T2).unlift

/-- `T1 @ T2` (second branch of `__matmul__`) -/
def FST.compose' [Mul K] [One K] (T1 : FST ι σ K) (T2 : FST κ σ K) : FST (ι × (Nat × κ)) σ K :=
  (T1.composeR T2).unlift

/-! ### `__call__(x, y)` -/

/-- forget the labels: every arc becomes `ε:ε` -/
def FST.eraseLabels (T : FST ι σ K) : FST ι σ K where
  start := T.start
  stop := T.stop
  arcs := T.arcs.map fun e => ⟨e.src, none, none, e.dst, e.w⟩

/-- stratified `total_weight()`: the total weight of the accepting paths with at most `n` arcs,
whatever their labels (Python sums all lengths at once through the closure of the weight graph) -/
def FST.totalN [Add K] [Mul K] [Zero K] [One K] (T : FST ι σ K) (n : Nat) : K :=
  TPN T.eraseLabels n [] []

/-- `T(x, y)` for two strings: `(from_string x @ T @ from_string y).total_weight()`, paths of the
three-way composition with at most `n` arcs -/
def FST.evalN [Add K] [Mul K] [Zero K] [One K] (T : FST ι σ K) (x y : List σ) (n : Nat) : K :=
  (((FST.fromString x (1 : K)).compose T).compose (FST.fromString y (1 : K))).totalN n

end
end Genlm
