import GenlmModel.Model.Compose
import GenlmModel.Model.WfsaOps
/-! Mirror models for four small gaps (task E7).  No Mathlib.  Correctness: `Proofs/GapTruncate.lean`,
`Proofs/GapFromStrings.lean`, `Proofs/GapMaterialize.lean` (and `Proofs/GapBytes.lean`, which needs no new model).

* `truncAcceptor`, `truncateLength` — `CFG.truncate_length(max_length)` (`cfg.py`): the acceptor of all strings of
  length `≤ max_length` over `V`, composed with the grammar by `__matmul__` (through `WFSA.to_fst = FST.diag`);
* `WFSA.fromStrings` — `WFSA.from_strings(Xs, R)` (`wfsa/base.py`): the prefix tree of a collection of strings, built
  with the *assigning* `set_I` / `set_arc` / `set_F` (not the accumulating `add_*`);
* `language`, `materializeOf` — `CFG.language(depth)` and the body of `CFG.materialize(max_length)` (`cfg.py`), as
  the finite chart (association list with pairwise different keys, in insertion order) they compute. -/
namespace Genlm

/-! ### `CFG.truncate_length`

```python
m = WFSA(self.R); m.add_I(0, one); m.add_F(0, one)
for t in range(max_length):
    for x in self.V: m.add_arc(t, x, t + 1, one)
    m.add_F(t + 1, one)
return self @ m
```
States `0 … max_length`, every state final.  Python's `self.V` is a set: the model is applied to a list without
repetitions (`G.V.eraseDups` in `truncateLength`). -/
section
variable {σ K : Type}

/-- the acceptor of the strings over `V` of length `≤ N`, every one with weight `one` -/
def truncAcceptor [One K] (V : List σ) (N : Nat) : WFSA Nat σ K where
  start := [(0, 1)]
  stop := (0, 1) :: (List.range N).map fun t => (t + 1, 1)
  arcs := (List.range N).flatMap fun t => V.map fun x => ⟨t, some x, t + 1, 1⟩

/-- `CFG.truncate_length(N)`: `self @ m`, i.e. `compose` with `FST.diag m` (`WFSA.to_fst`) -/
def truncateLength [DecidableEq σ] [DecidableEq K] [Mul K] [One K] [Zero K] (G : CFG σ K) (N : Nat) :
    CFG (CSym Nat σ) K :=
  compose G (FST.diag (truncAcceptor G.V.eraseDups N))

end

/-! ### `WFSA.from_strings`

```python
m = cls(R)
for xs in Xs:
    m.set_I(xs[:0], R.one)
    for i in range(len(xs)): m.set_arc(xs[:i], xs[i], xs[: i + 1], R.one)
    m.set_F(xs, R.one)
```
`set_*` ASSIGN (`self.start[q] = w`, `self.delta[i][a][j] = w`): a string given twice, or a prefix shared by several
strings, does not accumulate weight.  The states are the prefixes; the arc into the non-empty prefix `p` is
`p[:-1] --p[-1]--> p`, so the arcs are indexed by their target: the model lists the non-empty prefixes of the given
strings without repetition (first occurrences, the insertion order of the dictionaries) and emits one arc of
weight one per prefix.  One initial state (the empty prefix) as soon as one string is given. -/
section
variable {σ K : Type} [DecidableEq σ]

/-- the targets `xs[: i + 1]` of the `set_arc` calls, in the order of the loops -/
def fromStringsTargets (xs : List (List σ)) : List (List σ) :=
  xs.flatMap fun x => (List.range x.length).map fun i => x.take (i + 1)

/-- `WFSA.from_strings Xs R` -/
def WFSA.fromStrings [One K] (xs : List (List σ)) : WFSA (List σ) σ K where
  start := if xs.isEmpty then [] else [([], 1)]
  stop := xs.eraseDups.map fun x => (x, 1)
  arcs := (fromStringsTargets xs).eraseDups.map fun p => ⟨p.dropLast, p.getLast?, p, 1⟩

end

/-! ### `CFG.language`, `CFG.materialize`

```python
def language(self, depth):
    lang = self.R.chart()
    for d in self.derivations(self.S, depth): lang[d.Yield()] += d.weight()
    return lang
def materialize(self, max_length):
    depth = max(max_length, 1)        # a derivation of the empty string has height one
    return self.cnf.language(depth).filter(lambda x: len(x) <= max_length)
```
`derivations(X, H)` enumerates the derivation trees of height `≤ H` in exactly the order of `yields G H X`
(`Model/Compose.lean`: one entry `(yield, weight)` per tree, rules in grammar order, children left to right), so
the chart `language` builds is `accum (yields G depth S)`: one entry per *distinct yield* (a key is created by
`+=` whatever the weight added, zero included), carrying the accumulated weight.  `Chart.filter` keeps the entries
whose key passes the test.  `materializeOf` is the body of `materialize` applied to the grammar `self.cnf`. -/
section
variable {σ K : Type} [DecidableEq σ] [Add K] [Mul K] [Zero K] [One K]

/-- `CFG.language(depth)` -/
def language (G : CFG σ K) (depth : Nat) : List (List σ × K) := accum (yields G depth G.S)

/-- `Chart.filter(f)` -/
def chartFilter (f : List σ → Bool) (c : List (List σ × K)) : List (List σ × K) := c.filter fun e => f e.1

/-- `C.language(max(n, 1)).filter(lambda x: len(x) <= n)`; `materialize(n)` is `materializeOf self.cnf n` -/
def materializeOf (C : CFG σ K) (n : Nat) : List (List σ × K) :=
  chartFilter (fun x => decide (x.length ≤ n)) (language C (max n 1))

end
end Genlm
