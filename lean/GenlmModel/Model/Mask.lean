import GenlmModel.Model.Basic
import GenlmModel.Model.Horn
/-!
Decision procedure for "the token sequence `c` is a viable prefix of the context-free
grammar `G`" (`∃ y, S ⇒* c ++ y`), as the least model of a finite Horn program over
span / prefix items.  Weights are ignored (every listed rule is usable); a symbol is a
terminal iff it is in `G.V`; rules whose head is in `G.V` are never used (`derivations`
checks `is_terminal` first).  NO Mathlib.

The specification theorems (`viable_spec`, `derivesB_spec`, `nextSet_spec`) are in
`GenlmModel/Proofs/Mask.lean`; the tree semantics `Derives` in `GenlmModel/Proofs/Derives.lean`.
-/
namespace Genlm

/-! ### a faster evaluation of the least Horn model

`hlfp` runs `|cs|+1` rounds and lets the state grow with duplicates.  `hlfpFast` updates the
state while scanning the clause list (Gauss–Seidel), keeps it duplicate free and stops at the
first round that adds nothing.  `mem_hlfpFast : a ∈ hlfpFast cs ↔ a ∈ hlfp cs`. -/
section
variable {α : Type} [DecidableEq α]

/-- process one clause: add its conclusion if it is new and all premises are present -/
def gsStep (s : List α) (c : Clause α) : List α :=
  if c.concl ∈ s then s else if c.prem.all (· ∈ s) then c.concl :: s else s

/-- one scan over all the clauses, the state being updated on the fly -/
def gsRound (cs : List (Clause α)) (s : List α) : List α := cs.foldl gsStep s

/-- scan until a round adds nothing (fuel `k`) -/
def gsIter (cs : List (Clause α)) : Nat → List α → List α
  | 0, s => s
  | k+1, s =>
    let s' := gsRound cs s
    if s'.length = s.length then s else gsIter cs k s'

/-- `|cs|+1` rounds of fuel are always enough (`gsIter_closed`) -/
def hlfpFast (cs : List (Clause α)) : List α := gsIter cs (cs.length + 1) []

end

/-! ### the Horn program -/

/-- Items.  With `n = c.length`:
* `spanS i s j` — the symbol `s` derives exactly `c[i:j]`;
* `spanL i β j` — the symbol string `β` (a suffix of a rule body) derives exactly `c[i:j]`;
* `preS i s`   — `s` derives `c[i:] ++ y` for some `y`;
* `preL i β`   — `β` derives `c[i:] ++ y` for some `y` (`preL n β`: `β` derives something). -/
inductive Atom (σ : Type) where
  | spanS (i : Nat) (s : σ) (j : Nat)
  | spanL (i : Nat) (β : List σ) (j : Nat)
  | preS (i : Nat) (s : σ)
  | preL (i : Nat) (β : List σ)
deriving DecidableEq, Repr

section
variable {σ K : Type} [DecidableEq σ]

/-- removal of duplicates (keeps first occurrences) -/
def dedupL {α : Type} [DecidableEq α] : List α → List α
  | [] => []
  | x :: xs => x :: (dedupL xs).filter (· ≠ x)

/-- all suffixes of all rule bodies -/
def bodies (G : CFG σ K) : List (List σ) :=
  dedupL (G.rules.flatMap fun r => suffixes r.body)

/-- the non-empty ones, split into first symbol and rest -/
def consBodies (G : CFG σ K) : List (σ × List σ) :=
  (bodies G).filterMap fun b =>
    match b with
    | [] => none
    | s :: β => some (s, β)

/-- the usable rules: those whose head is not a terminal -/
def urules (G : CFG σ K) : List (Rule σ K) := G.rules.filter fun r => !(decide (r.head ∈ G.V))

/-! The clause groups (`n = c.length`; all indices range over `0..n`). -/

/-- `spanL i [] i` -/
def clSpanNil (n : Nat) : List (Clause (Atom σ)) :=
  (List.range (n + 1)).map fun i => ⟨[], .spanL i [] i⟩

/-- `spanS i a (i+1)` if `c[i] = a ∈ V` -/
def clSpanTerm (G : CFG σ K) (c : List σ) : List (Clause (Atom σ)) :=
  (List.range c.length).flatMap fun i =>
    match c[i]? with
    | some a => if a ∈ G.V then [⟨[], .spanS i a (i + 1)⟩] else []
    | none => []

/-- `spanS i X j ⊣ spanL i body j` for every usable rule `X → body` -/
def clSpanRule (G : CFG σ K) (n : Nat) : List (Clause (Atom σ)) :=
  (urules G).flatMap fun r => (List.range (n + 1)).flatMap fun j =>
    (List.range (j + 1)).map fun i => ⟨[.spanL i r.body j], .spanS i r.head j⟩

/-- `spanL i (s :: β) j ⊣ spanS i s m, spanL m β j` -/
def clSpanCons (G : CFG σ K) (n : Nat) : List (Clause (Atom σ)) :=
  (consBodies G).flatMap fun p => (List.range (n + 1)).flatMap fun j =>
    (List.range (j + 1)).flatMap fun m => (List.range (m + 1)).map fun i =>
      ⟨[.spanS i p.1 m, .spanL m p.2 j], .spanL i (p.1 :: p.2) j⟩

/-- `preL n []` -/
def clPreNil (n : Nat) : List (Clause (Atom σ)) := [⟨[], .preL n []⟩]

/-- `preS n a` for `a ∈ V` -/
def clPreTerm (G : CFG σ K) (n : Nat) : List (Clause (Atom σ)) :=
  G.V.map fun a => ⟨[], .preS n a⟩

/-- `preS i a ⊣ spanS i a n` for `a ∈ V` -/
def clPreSpan (G : CFG σ K) (n : Nat) : List (Clause (Atom σ)) :=
  G.V.flatMap fun a => (List.range (n + 1)).map fun i => ⟨[.spanS i a n], .preS i a⟩

/-- `preS i X ⊣ preL i body` for every usable rule `X → body` -/
def clPreRule (G : CFG σ K) (n : Nat) : List (Clause (Atom σ)) :=
  (urules G).flatMap fun r => (List.range (n + 1)).map fun i =>
    ⟨[.preL i r.body], .preS i r.head⟩

/-- `preL i (s :: β) ⊣ spanS i s m, preL m β`: the first symbol ends inside the context -/
def clPreConsL (G : CFG σ K) (n : Nat) : List (Clause (Atom σ)) :=
  (consBodies G).flatMap fun p => (List.range (n + 1)).flatMap fun m =>
    (List.range (m + 1)).map fun i => ⟨[.spanS i p.1 m, .preL m p.2], .preL i (p.1 :: p.2)⟩

/-- `preL i (s :: β) ⊣ preS i s, preL n β`: the first symbol covers the rest of the context -/
def clPreConsR (G : CFG σ K) (n : Nat) : List (Clause (Atom σ)) :=
  (consBodies G).flatMap fun p => (List.range (n + 1)).map fun i =>
    ⟨[.preS i p.1, .preL n p.2], .preL i (p.1 :: p.2)⟩

/-- The Horn program for grammar `G` and context `c`; `O(|G|·n³)` clauses. -/
def clauses (G : CFG σ K) (c : List σ) : List (Clause (Atom σ)) :=
  clSpanNil c.length ++ (clSpanTerm G c ++ (clSpanRule G c.length ++ (clSpanCons G c.length ++
  (clPreNil c.length ++ (clPreTerm G c.length ++ (clPreSpan G c.length ++
  (clPreRule G c.length ++ (clPreConsL G c.length ++ clPreConsR G c.length))))))))

/-- `c` is a viable prefix: `∃ y, S ⇒* c ++ y` (`viable_spec`) -/
def viable (G : CFG σ K) (c : List σ) : Bool :=
  decide (Atom.preS 0 G.S ∈ hlfpFast (clauses G c))

/-- `S ⇒* c` (`derivesB_spec`) -/
def derivesB (G : CFG σ K) (c : List σ) : Bool :=
  decide (Atom.spanS 0 G.S c.length ∈ hlfpFast (clauses G c))

/-- the next-token mask: the terminals `t` such that `c ++ [t]` is still a viable prefix -/
def nextSet (G : CFG σ K) (c : List σ) : List σ :=
  G.V.filter fun t => viable G (c ++ [t])

end
end Genlm
