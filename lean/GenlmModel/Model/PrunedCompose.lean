import GenlmModel.Model.FstOps
/-! Executable mirror model of `FST._pruned_compose` (`genlm/grammar/fst.py`) with the DEFAULT pruning
hooks (`keep = lambda x: True`, `keep_arc = lambda i, label, j: True`, i.e. `FST.PRUNING = None`): the
on-the-fly product construction that only builds the state pairs REACHABLE from the initial pairs.

```python
C = FST(R=self.R)
tmp = defaultdict(list)
for i, (a, b), j, w in other.arcs(): tmp[i, a].append((b, j, w))
visited = set(); stack = []
for P, w1 in self.I:
    for Q, w2 in other.I:
        PQ = (P, Q)
        C.add_I(PQ, w1 * w2); visited.add(PQ); stack.append(PQ)
while stack:
    P, Q = PQ = stack.pop()
    if P in self.stop and Q in other.stop: C.add_F(PQ, self.stop[P] * other.stop[Q])
    for (a, b), Pʼ, w1 in self.arcs(P):
        for c, Qʼ, w2 in tmp[Q, b]:
            assert b != EPSILON
            C.add_arc(PQ, (a, c), (Pʼ, Qʼ), w1 * w2)
            if (Pʼ, Qʼ) not in visited: stack.append((Pʼ, Qʼ)); visited.add((Pʼ, Qʼ))
return C
```

What is mirrored *as it is*:
* `self.I` / `other.I` only yield the states whose ACCUMULATED initial weight is non-zero (`nzKeys`), each once
  (they are dictionaries), and `w1`, `w2` are the accumulated weights (`wlook`);
* the explicit `stack` (LIFO: the head of the list `work` is the top) and the `visited` set (a list, only membership is
  used), the test `not in visited` made arc by arc (`pcPush`);
* `P in self.stop and Q in other.stop` is a test on the KEYS of the two charts (an entry of weight zero counts), the
  final weight is the product of the accumulated weights (`pcStopFrom`);
* the double loop over the arcs leaving `P` and the index `tmp[Q, b]` of the arcs of `other` leaving `Q` that read `b`
  (`pcIndex`, `pcArcsFrom`); as everywhere in this development a list of arcs may hold several arcs with the same
  source, labels and target — their meaning is the sum (Python's `delta[i][ab][j] += w` merges them);
* `assert b != EPSILON`: it is reached (and fails) exactly when an arc leaving `P` writes ε and `tmp[Q, ε]` is not
  empty (`pcAssertOK`); the result is then `some none` (Python raises `AssertionError`);
* the `while` loop is bounded by `fuel` (number of pops); the outer `none` means out of fuel
  (`pcFuel T1 T2 = |states T1| · |states T2|` always suffices, `Proofs/PrunedCompose.lean`).

Iteration orders: Python's orders (`dict` insertion orders, LIFO stack) are the orders of the lists of the model.  To
cover ANY worklist discipline the loop takes a parameter `ord` that rearranges the worklist before every pop
(`ord = id` is the code's LIFO discipline: `FST.prunedCompose`); all theorems hold for every `ord` that permutes.

The `FST.PRUNING` hook (not modelled; it is `None` in the library and nothing in the repository sets it): when it is
set, `_compose(coarsen=True)` — i.e. only the OUTER product of `__matmul__`, the product with the ε filter is always
called with `coarsen=False` — calls `keep = FST.PRUNING(self, other)` and then skips every initial pair and every arc
target `PQ` with `not keep(PQ)`, and every arc with `not keep_arc(PQ, (a, c), PʼQʼ)`.  The result is then a
sub-machine of the one modelled here; it has the same weights only if the hook keeps every useful pair and arc.

No Mathlib. -/
namespace Genlm

section
variable {α : Type} [DecidableEq α]

/-- `if t not in visited: stack.append(t); visited.add(t)` for the successive arc targets `t`; returns
`(stack, visited)` (the head of `work` is the top of the stack) -/
def pcPush (vis work : List α) : List α → List α × List α
  | [] => (work, vis)
  | t :: ts => if t ∈ vis then pcPush vis work ts else pcPush (t :: vis) (t :: work) ts

end

section
variable {ι κ σ K : Type} [DecidableEq ι] [DecidableEq κ] [DecidableEq σ] [DecidableEq K]
  [Add K] [Mul K] [Zero K] [One K]

/-- the keys yielded by Python's `self.I`: the states whose accumulated weight is not `R.zero`, each once -/
def nzKeys (l : List (ι × K)) : List ι := ((l.filter fun s => wlook l s.1 ≠ 0).map (·.1)).eraseDups

/-- the initial pairs, in the order of the double loop `for P, w1 in self.I: for Q, w2 in other.I` -/
def pcSeeds (T1 : FST ι σ K) (T2 : FST κ σ K) : List (ι × κ) :=
  (nzKeys T1.start).flatMap fun p => (nzKeys T2.start).map fun q => (p, q)

/-- `C.add_I(PQ, w1 * w2)` for the initial pairs -/
def pcStart (T1 : FST ι σ K) (T2 : FST κ σ K) : List ((ι × κ) × K) :=
  (pcSeeds T1 T2).map fun pq => (pq, wlook T1.start pq.1 * wlook T2.start pq.2)

/-- `tmp[Q, b]`: the arcs of `other` leaving `Q` that read `b` -/
def pcIndex (T2 : FST κ σ K) (q : κ) (b : Option σ) : List (TArc κ σ K) :=
  T2.arcs.filter fun e2 => e2.src = q ∧ e2.inp = b

/-- the arcs added when `PQ` is popped (the ε case only shows up when the assertion does not fail, i.e. when
`tmp[Q, ε]` is empty: no arc) -/
def pcArcsFrom (T1 : FST ι σ K) (T2 : FST κ σ K) (pq : ι × κ) : List (TArc (ι × κ) σ K) :=
  (T1.arcs.filter fun e1 => e1.src = pq.1).flatMap fun e1 =>
    match e1.out with
    | none => []
    | some b => (pcIndex T2 pq.2 (some b)).map fun e2 =>
        ⟨pq, e1.inp, e2.out, (e1.dst, e2.dst), e1.w * e2.w⟩

/-- `assert b != EPSILON` does not fail while `PQ` is processed -/
def pcAssertOK (T1 : FST ι σ K) (T2 : FST κ σ K) (pq : ι × κ) : Bool :=
  (T1.arcs.filter fun e1 => e1.src = pq.1 ∧ e1.out = none).isEmpty || (pcIndex T2 pq.2 none).isEmpty

/-- `if P in self.stop and Q in other.stop: C.add_F(PQ, self.stop[P] * other.stop[Q])` -/
def pcStopFrom (T1 : FST ι σ K) (T2 : FST κ σ K) (pq : ι × κ) : List ((ι × κ) × K) :=
  if (T1.stop.any fun f => f.1 = pq.1) && (T2.stop.any fun f => f.1 = pq.2) then
    [(pq, wlook T1.stop pq.1 * wlook T2.stop pq.2)]
  else []

/-- the `while stack` loop.  `work` = `stack`, `vis` = `visited`, `C` = the machine under construction. -/
def pcLoop (ord : List (ι × κ) → List (ι × κ)) (T1 : FST ι σ K) (T2 : FST κ σ K) :
    Nat → List (ι × κ) → List (ι × κ) → FST (ι × κ) σ K → Option (Option (FST (ι × κ) σ K))
  | 0, work, _, C =>
    match ord work with
    | [] => some (some C)
    | _ :: _ => none
  | f + 1, work, vis, C =>
    match ord work with
    | [] => some (some C)
    | pq :: rest =>
      if pcAssertOK T1 T2 pq then
        let new := pcArcsFrom T1 T2 pq
        let r := pcPush vis rest (new.map (·.dst))
        pcLoop ord T1 T2 f r.1 r.2 ⟨C.start, C.stop ++ pcStopFrom T1 T2 pq, C.arcs ++ new⟩
      else some none

/-- `_pruned_compose(other, keep ≡ True, keep_arc ≡ True)` with the worklist rearranged by `ord` before every pop.
`some (some C)` = the machine `C`, `some none` = `AssertionError`, `none` = out of fuel. -/
def FST.prunedComposeWith (ord : List (ι × κ) → List (ι × κ)) (T1 : FST ι σ K) (T2 : FST κ σ K) (fuel : Nat) :
    Option (Option (FST (ι × κ) σ K)) :=
  pcLoop ord T1 T2 fuel (pcSeeds T1 T2).reverse (pcSeeds T1 T2) ⟨pcStart T1 T2, [], []⟩

/-- `_pruned_compose` with the default hooks, as the code runs it (LIFO stack) -/
def FST.prunedCompose (T1 : FST ι σ K) (T2 : FST κ σ K) (fuel : Nat) : Option (Option (FST (ι × κ) σ K)) :=
  FST.prunedComposeWith id T1 T2 fuel

/-- a number of pops that always suffices -/
def pcFuel (T1 : FST ι σ K) (T2 : FST κ σ K) : Nat := T1.states.length * T2.states.length

/-- sequencing of two runs (`AssertionError` and out-of-fuel propagate) -/
def pcBind {β γ : Type} (r : Option (Option β)) (g : β → Option (Option γ)) : Option (Option γ) :=
  match r with
  | none => none
  | some none => some none
  | some (some b) => g b

/-- `__matmul__` as the code runs it, first branch (`len(self.states) < len(other.states)`):
`(T1.augment 0 ∘ filter) ∘ T2.augment 1` with both products built on the fly, then back to the original symbols
(`FST.unlift`, a representation step, see `Model/FstOps.lean`) -/
def FST.composePruned (T1 : FST ι σ K) (T2 : FST κ σ K) (fuel : Nat) :
    Option (Option (FST ((ι × Nat) × κ) σ K)) :=
  pcBind ((T1.augment false).prunedCompose (epsilonFilter T1.outLabels) fuel) fun C1 =>
    pcBind (C1.prunedCompose (T2.augment true) fuel) fun C2 => some (some C2.unlift)

/-- `__matmul__` as the code runs it, second branch: `T1.augment 0 ∘ (filter ∘ T2.augment 1)` -/
def FST.composePruned' (T1 : FST ι σ K) (T2 : FST κ σ K) (fuel : Nat) :
    Option (Option (FST (ι × (Nat × κ)) σ K)) :=
  pcBind ((epsilonFilter (K := K) T1.outLabels).prunedCompose (T2.augment true) fuel) fun C1 =>
    pcBind ((T1.augment false).prunedCompose C1 fuel) fun C2 => some (some C2.unlift)

end
end Genlm
