import GenlmModel.Model.Basic
/-!
Mirror model of `CFG.agenda` (`genlm/grammar/cfg.py`), the agenda-based semi-naive evaluation
of the total weights ("treesums") of a grammar.

```python
def agenda(self, tol=1e-12, maxiter=100_000):
    old = self.R.chart()
    routing = defaultdict(list)
    for r in self:
        for k in range(len(r.body)):
            routing[r.body[k]].append((r, k))
    ...
    def update(x, W): change[bucket[x]][x] += W
    change = defaultdict(self.R.chart)
    for a in self.V: update(a, self.R.one)
    for r in self:
        if len(r.body) == 0: update(r.head, r.w)
    b = len(blocks); iteration = 0
    while b >= 0:
        ...
        u, v = change[b].popitem()
        new = old[u] + v
        if self.R.metric(old[u], new) <= tol: continue      # NOT modelled
        for r, k in routing[u]:
            W = r.w
            for j in range(len(r.body)):
                if u == r.body[j]:
                    if j < k:    W *= new
                    elif j == k: W *= v
                    else:        W *= old[u]
                else:            W *= old[r.body[j]]
            update(r.head, W)
        old[u] = new
    return old
```

What is modelled: the chart `old` (a total function, a missing key reads as zero), the
dict-of-charts `change` (an association list: appending `(x, W)` is `change[..][x] += W`; the
pending value of `x` is the sum of its entries; `x` is a key iff it has at least one entry),
the initialisation, and the body of the `while` loop for an ARBITRARY popped key `u`
(`popitem` of an arbitrary bucket: chaotic iteration).

What is NOT modelled: the tolerance test, `maxiter`, and the order in which the blocks of the
dependency graph are visited (every block order is one particular scheduler).
Terminals are ordinary symbols, exactly as in the Python code: each receives the update `one`,
and `routing` is keyed by every body symbol.  NO Mathlib.
-/
namespace Genlm
section
variable {σ K : Type} [DecidableEq σ] [Add K] [Mul K] [Zero K] [One K]

/-- `old` chart and the pending updates `change` -/
structure AgState (σ K : Type) where
  old : σ → K
  change : List (σ × K)

/-- value stored under the key `x` in the dict `change`: the sum of all `+=` made to it -/
def agPending (ch : List (σ × K)) (x : σ) : K :=
  lsum ((ch.filter fun e => e.1 = x).map fun e => e.2)

/-- pending update of the symbol `x` in the state `st` -/
def pending (st : AgState σ K) (x : σ) : K := agPending st.change x

/-- is `x` a key of `change` (can `popitem` return it)? -/
def isPending (st : AgState σ K) (x : σ) : Bool := st.change.any fun e => e.1 = x

/-- Python's `V` is a set: iterate over each terminal once -/
def agDedup : List σ → List σ
  | [] => []
  | a :: l => if a ∈ l then agDedup l else a :: agDedup l

/-- the state before the `while` loop -/
def agendaInit (G : CFG σ K) : AgState σ K :=
  { old := fun _ => 0
    change := (agDedup G.V).map (fun a => (a, (1 : K))) ++
      (G.rules.filter fun r => r.body.isEmpty).map fun r => (r.head, r.w) }

/-- the positions `k` (counted from `j`) with `body[k] = u`: the entries `(r, k)` of `routing[u]`
contributed by one rule -/
def agPositions (u : σ) : Nat → List σ → List Nat
  | _, [] => []
  | j, y :: ys => if y = u then j :: agPositions u (j+1) ys else agPositions u (j+1) ys

/-- the inner loop `for j in range(len(r.body)): W *= ...`, from position `j` on, for the
routing entry `(r, k)` -/
def agWLoop (old : σ → K) (u : σ) (new v : K) (k : Nat) : Nat → List σ → K → K
  | _, [], W => W
  | j, y :: ys, W =>
    agWLoop old u new v k (j+1) ys
      (W * (if y = u then (if j < k then new else if j = k then v else old u) else old y))

/-- all the `update(r.head, W)` of one pass of the `for r, k in routing[u]` loop, in order -/
def agPushes (G : CFG σ K) (old : σ → K) (u : σ) (new v : K) : List (σ × K) :=
  G.rules.flatMap fun r =>
    (agPositions u 0 r.body).map fun k => (r.head, agWLoop old u new v k 0 r.body r.w)

/-- one iteration of the `while` loop when `popitem` returns the key `u`.  The entries of `u`
are removed first; updates whose head is `u` itself re-create the key. -/
def agendaStep (G : CFG σ K) (u : σ) (st : AgState σ K) : AgState σ K :=
  let v := agPending st.change u
  let new := st.old u + v
  { old := fun x => if x = u then new else st.old x
    change := (st.change.filter fun e => !(decide (e.1 = u))) ++ agPushes G st.old u new v }

/-- the same, but `popitem` can only return an existing key (otherwise nothing happens) -/
def agendaStepP (G : CFG σ K) (u : σ) (st : AgState σ K) : AgState σ K :=
  if isPending st u then agendaStep G u st else st

/-- the state after the scheduler has made the choices `sched` (any list of symbols) -/
def agendaRun (G : CFG σ K) (sched : List σ) : AgState σ K :=
  sched.foldl (fun st u => agendaStep G u st) (agendaInit G)

def agendaRunP (G : CFG σ K) (sched : List σ) : AgState σ K :=
  sched.foldl (fun st u => agendaStepP G u st) (agendaInit G)

/-- the right-hand sides of the equations the agenda solves: one for every terminal, plus the
polynomial of the rules (terminals in bodies are ordinary variables) -/
def agF (G : CFG σ K) (z : σ → K) (X : σ) : K :=
  (if X ∈ G.V then 1 else 0) +
    lsum ((G.rules.filter fun r => r.head = X).map fun r => r.w * lprod (r.body.map z))

/-- Kleene iterates of `agF` from the zero chart -/
def agIter (G : CFG σ K) : Nat → σ → K
  | 0 => fun _ => 0
  | n+1 => agF G (agIter G n)

end
end Genlm
