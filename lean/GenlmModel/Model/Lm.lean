import GenlmModel.Model.Basic
/-!
Mirror models of `Chart.sum`, `Chart.normalize` (`genlm/grammar/chart.py`) and of `LM.__call__`
(`genlm/grammar/lm.py`).  A chart is an association list with distinct keys (a Python dict).
NO Mathlib.

```python
def sum(self): return sum(self.values())
def normalize(self):
    Z = self.sum()
    if Z == 0: return self
    return self.semiring.chart((k, v / Z) for k, v in self.items())

def __call__(self, context):            # class LM
    assert context[-1] == self.eos
    P = 1
    for i, y in enumerate(context):
        p = self.p_next(context[:i]); P *= p[y]
        if P == 0: break
    return P
```
-/
namespace Genlm
section
variable {τ K : Type} [Add K] [Mul K] [Div K] [Zero K] [One K] [DecidableEq K]

/-- `Chart.sum`: Python's `sum` is a left fold starting from `0` -/
def chartSum (q : List (τ × K)) : K := q.foldl (fun a e => a + e.2) 0

/-- `Chart.normalize` -/
def normalize (q : List (τ × K)) : List (τ × K) :=
  let Z := chartSum q
  if Z = 0 then q else q.map fun e => (e.1, e.2 / Z)

/-- `LM.__call__`, with `pnext c y` standing for `self.p_next(c)[y]`; `enumerate` is `zipIdx`,
`context[:i]` is `take i`, and the early `break` is the test `P = 0` before each later round -/
def lmCall (pnext : List τ → τ → K) (context : List τ) : K :=
  context.zipIdx.foldl (fun P yi => if P = 0 then P else P * pnext (context.take yi.2) yi.1) 1

end
end Genlm
