import GenlmModel.Model.Basic
namespace Genlm.Props.C12
end Genlm.Props.C12
