import GenlmModel.Proofs.GenLink.Wfsa
import GenlmModel.Proofs.GenLink.WfsaString
import Batteries.Tactic.Alias
import GenlmModel.Proofs.Star
import GenlmModel.Proofs.Wfsa
import GenlmModel.Proofs.LimWfsa
import GenlmModel.Proofs.GapFromStrings
/-! # C12 — rational operations implement the algebra of weighted languages
Exact-length path identities, every commutative semiring, operands with ε arcs and several
initial/final states. -/
namespace Genlm.Props.C12
/-! ## re-checked tie to the source: the definitions REGENERATED from the Python builder functions on every run
(`Generated/Builders.lean`, by `harness/translate.py`) are the hand-written models the theorems below are about -/
alias gen_WFSA_lift_eq_model := Genlm.gen_WFSA_lift_eq_model
alias gen_WFSA_from_string_eq_model := Genlm.gen_WFSA_from_string_eq_model
alias gen_WFSA_zero_eq_model := Genlm.gen_WFSA_zero_eq_model
alias gen_WFSA_one_eq_model := Genlm.gen_WFSA_one_eq_model
alias gen_WFSA_reverse_eq_model := Genlm.gen_WFSA_reverse_eq_model
alias gen_WFSA_add_eq_model := Genlm.gen_WFSA_add_eq_model
alias gen_WFSA_mul_eq_model := Genlm.gen_WFSA_mul_eq_model
alias gen_WFSA_kleene_plus_eq_model := Genlm.gen_WFSA_kleene_plus_eq_model
alias gen_WFSA_from_string_default := Genlm.gen_WFSA_from_string_default
alias gen_WFSA_add_path_sums := Genlm.gen_WFSA_add_Pk
alias gen_WFSA_mul_path_sums := Genlm.gen_WFSA_mul_Pk
alias gen_WFSA_kleene_plus_path_sums := Genlm.gen_WFSA_kleene_plus_Pk

alias union_is_sum := Genlm.union_Pk
alias concat_is_cauchy_product := Genlm.concat_Pk
alias plus_unfolds := Genlm.kleenePlus_Pk
alias reverse_reverses := Genlm.reverse_Pk
alias injective_renaming_irrelevant := Genlm.mapStates_Pk
alias lift_spec := Genlm.lift_spec
alias from_string_spec := Genlm.fromString_spec
alias zero_spec := Genlm.zero_spec
/-- star = one + plus -/
alias star_is_one_plus_plus := Genlm.star_Pk
alias concat_limit := Genlm.concat_PN_limit
alias plus_limit := Genlm.kleenePlus_PN_limit
alias star_limit := Genlm.star_PN_limit

/-! ## at the limit (ℝ≥0∞): exact identities between the full path sums `PL` (operands with ε cycles included) -/
alias union_limit_exact := Genlm.union_PL
alias concat_limit_exact := Genlm.concat_PL
alias reverse_limit_exact := Genlm.reverse_PL
alias renaming_limit_exact := Genlm.mapStates_PL
/-- plus(A)(x) = Σ over all factorisations of x into ≥ 1 factors of the product of A on the factors -/
alias plus_is_sum_over_factorisations := Genlm.kleenePlus_PL_series
/-- star(A)(x) = [x = ε] + plus(A)(x), and star = 1 + A·star -/
alias star_is_sum_over_factorisations := Genlm.star_PL_series
alias star_unfold_limit := Genlm.star_PL_unfold

/-- construction from a SET of strings: weight 1 exactly on the listed strings (the code assigns, so repetitions do not add up) -/
alias from_strings_spec := Genlm.fromStrings_Pk
alias from_strings_call := Genlm.fromStrings_forward
alias from_strings_limit := Genlm.fromStrings_PL
alias one_spec := Genlm.one_PN
alias one_limit := Genlm.one_PL

/-! ## re-checked tie to the source: the definitions REGENERATED from the Python functions on every run
(`Generated/Builders.lean` / `Generated/Folds.lean`, by `harness/translate.py`) are the hand-written models the theorems here are about -/
alias gen_WFSA_rename_eq_model := Genlm.gen_WFSA_rename_eq_model
end Genlm.Props.C12
