import GenlmModel.Model.Basic
namespace Genlm.Props.C15
end Genlm.Props.C15
