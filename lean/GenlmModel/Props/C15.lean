import Batteries.Tactic.Alias
import GenlmModel.Proofs.Linear
/-! # C15 — algebraic path solver -/
namespace Genlm.Props.C15
alias solve_left_equation := Genlm.solveLeft_eq
alias solve_right_equation := Genlm.solveRight_eq
alias closure_row_equation := Genlm.closure_scc_row
alias lehmann_closed := Genlm.lehmann_closed
alias lehmann_field := Genlm.lehmann_field
/-- the checker accepts exactly the SCC decompositions listed in an edge-compatible order -/
alias scc_checker_exact := Genlm.sccCheck_iff
alias scc_checker_sound := Genlm.sccCheck_sound
alias closure_scc_correct := Genlm.closureScc_correct
alias closure_reference_closed := Genlm.closureRef_closed
end Genlm.Props.C15
