import Batteries.Tactic.Alias
import GenlmModel.Proofs.Linear
import GenlmModel.Proofs.LimLinear
import GenlmModel.Proofs.Tarjan
/-! # C15 — algebraic path solver -/
namespace Genlm.Props.C15
alias solve_left_equation := Genlm.solveLeft_eq
alias solve_right_equation := Genlm.solveRight_eq
alias closure_row_equation := Genlm.closure_scc_row
alias lehmann_closed := Genlm.lehmann_closed
alias lehmann_field := Genlm.lehmann_field
/-- the checker accepts exactly the SCC decompositions listed in an edge-compatible order -/
alias scc_checker_exact := Genlm.sccCheck_iff
alias scc_checker_sound := Genlm.sccCheck_sound
alias closure_scc_correct := Genlm.closureScc_correct
alias closure_reference_closed := Genlm.closureRef_closed
/-! ## at the limit (ℝ≥0∞, star a = Σ_n aⁿ): closures ARE path sums, solvers return LEAST solutions -/
alias star_unfold := Genlm.star_ennreal_unfold
alias star_least := Genlm.star_ennreal_least
/-- entry (i, j) of the Lehmann closure is the total weight of ALL paths from i to j (= Σ_k (A^k) i j), for every finite
weighted graph, any pivot order -/
alias lehmann_is_path_sum := Genlm.lehmann_is_path_sum
alias path_weight_is_matrix_power := Genlm.pathW_eq_matrix_pow
alias reference_closure_is_path_sum := Genlm.closureRef_is_path_sum
/-- the SCC-based closure on any decomposition accepted by the verified checker equals the path sums, hence the reference closure -/
alias closure_scc_is_path_sum := Genlm.closureScc_is_path_sum
alias closure_scc_eq_reference := Genlm.closureScc_eq_closureRef
/-- solve_left(b) = b·A*, solves x = xA + b and lies below every pre-fixed point (THE least solution); likewise solve_right -/
alias solve_left_least := Genlm.solveLeft_least
alias solve_right_least := Genlm.solveRight_least
alias solvers_least_of_checked_blocks := Genlm.solve_least_of_sccCheck

/-! ## Tarjan's algorithm as `scc_decomposition` implements it (single `lowest` dict, recursive DFS over `incoming`) -/
/-- for every finite graph and EVERY iteration order of the node / successor sets: the emitted components are disjoint, cover
exactly the nodes reachable from the roots, two nodes share a component iff they reach each other, and a component is emitted
after every component it reaches -/
alias tarjan_correct := Genlm.tarjan_correct
/-- `WeightedGraph.blocks` is an SCC decomposition listed in an order compatible with the edges … -/
alias blocks_is_scc_decomposition := Genlm.tarjanBlocks_isSccDecomp
/-- … which the exact checker accepts, whatever the order inside the frozensets -/
alias blocks_accepted_by_checker := Genlm.tarjanBlocks_sccCheck_perm
end Genlm.Props.C15
