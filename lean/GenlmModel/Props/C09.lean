import Batteries.Tactic.Alias
import GenlmModel.Proofs.Fst
import GenlmModel.Proofs.Tab
namespace Genlm.Props.C09
alias oracle_transducer_path_sum := Genlm.TPNtab_spec
alias oracle_derivation_sum := Genlm.WNtab_spec
end Genlm.Props.C09
