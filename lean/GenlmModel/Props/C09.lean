import GenlmModel.Proofs.GenLink.CfgTruncate
import Batteries.Tactic.Alias
import GenlmModel.Proofs.Fast
import GenlmModel.Proofs.Fst
import GenlmModel.Proofs.Tab
import GenlmModel.Proofs.Compose
import GenlmModel.Proofs.LimPrefix
import GenlmModel.Proofs.GapTruncate
/-! # C09 — grammar∘transducer composition is relational composition
About the mirror model `compose` / `composeAll` of `CFG.__matmul__` (weighted Bar-Hillel construction
with the ε handling of the code: special rules `a → ε a`, `Other(S)`), every commutative semiring.
`wsum (yields G n S) φ` is `Σ_x WN G n S x · φ x` over all strings. -/
namespace Genlm.Props.C09
alias oracle_transducer_path_sum := Genlm.TPNtab_spec
alias oracle_derivation_sum := Genlm.WNtab_spec
/-- THE composition theorem (ε on either tape, cycles, any grammar): the composed grammar's derivation sums and
Σ_x G(x)·T(x,y) bound each other level-wise, so they have the same limit -/
alias compose_is_relational_composition := Genlm.compose_eps
alias compose_limit := Genlm.compose_limit
/-- exact level identity for grammars without nullary rules and input-ε-free transducers -/
alias compose_exact_epsfree := Genlm.compose_epsfree_exact
alias compose_epsfree := Genlm.compose_epsfree
/-- restricting the construction to the supported items (what the code builds) changes no weight -/
alias pruning_irrelevant := Genlm.compose_eq_composeAll
/-- acceptor / string composition is the pointwise product -/
alias compose_acceptor := Genlm.compose_acceptor
alias compose_string := Genlm.compose_string
alias driver_compose_is_model := Genlm.composeShared_eq

/-! ## at the limit (ℝ≥0∞) -/
/-- the composed grammar (all items / the pruned construction the code builds) weighs y with Σ_x G(x)·T(x,y), the sums
ranging over ALL input strings, derivations and transducer paths (ε on both tapes, cycles) -/
alias compose_true_limit := Genlm.compose_WL
alias compose_pruned_true_limit := Genlm.compose_WL'

/-- length truncation (`truncate_length`: composition with the acceptor of all strings of length ≤ N) keeps exactly the
strings within the bound, with unchanged weights -/
alias truncate_length_limit := Genlm.truncateLength_WL
alias truncate_length_levelwise_bounds := Genlm.truncateLength_WN
alias truncate_length_long_strings_zero := Genlm.truncateLength_WN_long

/-! ## re-checked tie to the source: the definitions REGENERATED from the Python functions on every run
(`Generated/Builders.lean` / `Generated/Folds.lean`, by `harness/translate.py`) are the hand-written models the theorems here are about -/
alias gen_CFG_truncate_length_acceptor_eq_model := Genlm.gen_CFG_truncate_length_acceptor_eq_model
alias gen_CFG_truncate_length_eq_model := Genlm.gen_CFG_truncate_length_eq_model
end Genlm.Props.C09
