import GenlmModel.Proofs.GenLink.CfgMapValues
import GenlmModel.Proofs.GenLink.CfgSpawn
import Batteries.Tactic.Alias
import GenlmModel.Proofs.UCycle
import GenlmModel.Proofs.Struct
/-! # C07 — normal forms satisfy their structural postconditions
About the mirror models of `Model/Transform.lean` (compared with the real code stage by stage on
every run), for EVERY input grammar. -/
namespace Genlm.Props.C07
alias binarize_arity := Genlm.binarize_arity
alias binarize_complete := Genlm.binarize_complete
alias binarize_keeps_short := Genlm.binarize_keeps_short
alias separate_start_off_rhs := Genlm.separateStart_off_rhs
alias separate_terminals_shape := Genlm.separateTerminals_shape
alias push_null_no_nullary_except_start := Genlm.pushNull_no_nullary
alias unaryremove_no_unary := Genlm.unaryRemove_no_unary
/-- every symbol of every kept rule is reachable and generating (grammars never store zero-weight rules) -/
alias trim_useful := Genlm.trim_useful
alias trim_symbols := Genlm.trim_symbols
alias generating_spec := Genlm.generating_spec
/-- a grammar with empty language trims to the empty rule set -/
alias trim_empty := Genlm.trim_empty
alias trim_nonempty := Genlm.trim_nonempty
alias trim_idempotent := Genlm.trim_idem
/-- the whole `cnf` pipeline lands in Chomsky normal form, start symbol off every right-hand side -/
alias cnf_shape := Genlm.cnf_shape
/-- unary-cycle removal (given the SCC blocks of the unary graph) leaves no unary cycle -/
alias unarycycleremove_no_unary_cycle := Genlm.ucycle_no_unary_cycle
/-- … for the code path as it runs (`_unary_graph`, `Blocks`), if no key of the graph was cancelled away
(`unaryArcsComplete`, evaluated by the driver on every compared case) … -/
alias unarycycleremove_no_unary_cycle_graph := Genlm.ucycle_no_unary_cycle_graph
/-- … which is automatic where non-zero weights cannot cancel -/
alias unarycycleremove_no_unary_cycle_graph_zsf := Genlm.ucycle_no_unary_cycle_graph_zsf
alias unary_graph_keeps_every_unary_rule := Genlm.UCycleAux.unaryGraph_arcs
/-- `has_unary_cycle` (mirror model `hasUnaryCycle`, compared with the real method on every case) decides the
existence of a cycle of unary rules -/
alias has_unary_cycle_iff := Genlm.hasUnaryCycle_iff
alias has_unary_cycle_graph := Genlm.hasUnaryCycle_graph

/-! ## re-checked tie to the source: the definitions REGENERATED from the Python functions on every run
(`Generated/Builders.lean` / `Generated/Folds.lean`, by `harness/translate.py`) are the hand-written models the theorems here are about -/
alias gen_CFG_spawn_eq_model := Genlm.gen_CFG_spawn_eq_model
alias gen_CFG_spawn_start := Genlm.gen_CFG_spawn_start
alias gen_CFG_separate_start_eq_model := Genlm.gen_CFG_separate_start_eq_model
alias gen_CFG_rename_eq_model := Genlm.gen_CFG_rename_eq_model
alias gen_CFG_map_values_eq_model := Genlm.gen_CFG_map_values_eq_model
alias gen_CFG_map_values_kept_rules := Genlm.gen_CFG_map_values_dropZero
end Genlm.Props.C07
