import GenlmModel.Model.Basic
namespace Genlm.Props.C07
end Genlm.Props.C07
