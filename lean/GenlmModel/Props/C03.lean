import GenlmModel.Proofs.GenLink.Cfg
import Batteries.Tactic.Alias
import GenlmModel.Proofs.PrefixWeight
import GenlmModel.Proofs.DerivSkip
import GenlmModel.Proofs.Deriv
import GenlmModel.Proofs.PrefixT
import GenlmModel.Proofs.LimPrefix
import GenlmModel.Proofs.LimNorm
/-! # C03 — prefix weights -/
namespace Genlm.Props.C03
/-! ## re-checked tie to the source: the definitions REGENERATED from the Python builder functions on every run
(`Generated/Builders.lean`, by `harness/translate.py`) are the hand-written models the theorems below are about -/
alias gen_prefix_transducer_eq_model := Genlm.gen_prefix_transducer_eq_model
alias gen_prefix_transducer_path_sums := Genlm.gen_prefix_transducer_TPk

/-- the prefix transducer relates every string to each of its prefixes exactly once -/
alias prefix_transducer_unique := Genlm.prefix_transducer_unique'
alias prefix_transducer_total := Genlm.prefix_transducer_total
alias prefix_transducer_oov := Genlm.prefix_transducer_oov
/-- derivative grammar, no ε-derivations: exact level identity `WN D n (X/a) y = WN G n X (a·y)` -/
alias derivative_eps_free := Genlm.derivative_eps_free
/-- general case, relative to null weights attained by the ε-derivation sums -/
alias derivative_spec := Genlm.derivative_spec
alias derivative_limit := Genlm.derivative_limit
alias derivative_keeps_old_symbols := Genlm.derivative_old
/-- differentiating twice by the same token (the SKIP re-use of existing slash symbols) -/
alias derivative_twice_le := Genlm.derivative_twice_le
alias derivative_twice_ge := Genlm.derivative_twice_ge
/-- THE prefix-weight theorem: the prefix grammar `G @ prefix_transducer` and the sum of the weights of the derivations of
strings with prefix p bound each other at adjacent levels (every string counted once) -/
alias prefix_weight := Genlm.prefix_weight
alias prefix_weight_exact := Genlm.prefix_weight_exact
alias prefix_weight_limit := Genlm.prefix_weight_limit
/-- prefix sums count each string once and satisfy the prefix recurrence -/
alias prefix_sum_is_sum_over_strings := Genlm.prefixWN_eq_sum_strsLe
alias prefix_recurrence := Genlm.prefixWN_consistent

/-! ## at the limit (ℝ≥0∞): genuinely infinite sums over all completions -/
/-- the prefix grammar the code builds (`G @ prefix_transducer`, pruned construction) assigns to p the sum of the weights of
ALL strings that begin with p, each counted once — no convergence hypothesis (a divergent sum is `∞` on both sides) -/
alias prefix_weight_is_sum_over_all_completions := Genlm.prefixWeight_WL'
alias prefix_weight_as_tsum_append := Genlm.prefixWeight_WL_append
/-- for the empty prefix: the total weight of the language -/
alias prefix_weight_empty_is_total := Genlm.prefixWeight_nil
alias prefix_transducer_limit_weight := Genlm.TL_prefixT
/-- derivative with the TRUE nullable factors (infinitely many ε-derivations allowed): D_a G (y) = G(a·y) -/
alias derivative_true_limit := Genlm.derivative_WL
alias derivative_true_limit_start := Genlm.derivative_WL_start
end Genlm.Props.C03
