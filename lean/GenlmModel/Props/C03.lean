import Batteries.Tactic.Alias
import GenlmModel.Proofs.DerivSkip
import GenlmModel.Proofs.Deriv
import GenlmModel.Proofs.PrefixT
/-! # C03 — prefix weights -/
namespace Genlm.Props.C03
/-- the prefix transducer relates every string to each of its prefixes exactly once -/
alias prefix_transducer_unique := Genlm.prefix_transducer_unique'
alias prefix_transducer_total := Genlm.prefix_transducer_total
alias prefix_transducer_oov := Genlm.prefix_transducer_oov
/-- derivative grammar, no ε-derivations: exact level identity `WN D n (X/a) y = WN G n X (a·y)` -/
alias derivative_eps_free := Genlm.derivative_eps_free
/-- general case, relative to null weights attained by the ε-derivation sums -/
alias derivative_spec := Genlm.derivative_spec
alias derivative_limit := Genlm.derivative_limit
alias derivative_keeps_old_symbols := Genlm.derivative_old
/-- differentiating twice by the same token (the SKIP re-use of existing slash symbols) -/
alias derivative_twice_le := Genlm.derivative_twice_le
alias derivative_twice_ge := Genlm.derivative_twice_ge
end Genlm.Props.C03
