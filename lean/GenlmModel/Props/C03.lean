import Batteries.Tactic.Alias
import GenlmModel.Proofs.PrefixT
/-! # C03 — prefix weights -/
namespace Genlm.Props.C03
/-- the prefix transducer relates every string to each of its prefixes exactly once -/
alias prefix_transducer_unique := Genlm.prefix_transducer_unique'
alias prefix_transducer_total := Genlm.prefix_transducer_total
alias prefix_transducer_oov := Genlm.prefix_transducer_oov
end Genlm.Props.C03
