import Batteries.Tactic.Alias
import GenlmModel.Proofs.Regex
import GenlmModel.Proofs.FsmWfsa
import GenlmModel.Proofs.EndToEndLark
/-! # C18 — the reference matcher the regex automata are compared with is verified -/
namespace Genlm.Props.C18
/-- the matcher decides exactly the denotation of the (desugared) regular expression -/
alias matcher_decides_denotation := Genlm.Re.accepts_iff
/-- model of the FSM→WFSA step of `interegular_to_wfsa`: every state with fan-out > 0 has outgoing mass + final weight = 1 -/
alias fsm_to_wfsa_normalised := Genlm.fsmToWfsa_normalised_field
/-- positive weight ⇔ the FSM accepts through live states -/
alias fsm_to_wfsa_support := Genlm.fsmToWfsa_support_field
/-- string weights form a sub-probability distribution -/
alias fsm_to_wfsa_subprobability := Genlm.fsmToWfsa_subprob_field

/-- the grammar of a regex automaton: weights = forward weights of the normalised automaton; heads sum to one -/
alias terminal_grammar_weight := Genlm.terminal_grammar_weight
alias terminal_grammar_locally_normalised := Genlm.terminal_grammar_locally_normalised
end Genlm.Props.C18
