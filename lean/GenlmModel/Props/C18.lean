import Batteries.Tactic.Alias
import GenlmModel.Proofs.Regex
/-! # C18 — the reference matcher the regex automata are compared with is verified -/
namespace Genlm.Props.C18
/-- the matcher decides exactly the denotation of the (desugared) regular expression -/
alias matcher_decides_denotation := Genlm.Re.accepts_iff
end Genlm.Props.C18
