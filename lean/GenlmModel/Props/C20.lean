import GenlmModel.Model.Basic
namespace Genlm.Props.C20
end Genlm.Props.C20
