import Batteries.Tactic.Alias
import GenlmModel.Proofs.AddEos
import GenlmModel.Proofs.Norm
/-! # C20 — local normalisation; EOS wrapping -/
namespace Genlm.Props.C20
alias heads_sum_to_one := Genlm.ln_heads_sum_one_drop
alias proportional := Genlm.ln_proportional_drop
alias proportional_div := Genlm.ln_proportional_div
alias zero_rules_irrelevant := Genlm.WN_dropZero
alias eos_wrapping := Genlm.addEOS_spec
alias eos_append := Genlm.addEOS_append
alias eos_zero_otherwise := Genlm.addEOS_zero
end Genlm.Props.C20
