import GenlmModel.Proofs.GenLink.ChartProduct
import GenlmModel.Proofs.GenLink.Cfglm
import Batteries.Tactic.Alias
import GenlmModel.Proofs.AddEos
import GenlmModel.Proofs.Norm
import GenlmModel.Proofs.LimPrefix
import GenlmModel.Proofs.LimNorm
/-! # C20 — local normalisation; EOS wrapping -/
namespace Genlm.Props.C20
/-! ## re-checked tie to the source: the definitions REGENERATED from the Python builder functions on every run
(`Generated/Builders.lean`, by `harness/translate.py`) are the hand-written models the theorems below are about -/
alias gen_add_EOS_eq_model := Genlm.gen_add_EOS_eq_model
alias gen_add_EOS_derivation_sums := Genlm.gen_add_EOS_WN
alias gen_locally_normalize_eq_model := Genlm.gen_locally_normalize_eq_model

alias heads_sum_to_one := Genlm.ln_heads_sum_one_drop
alias proportional := Genlm.ln_proportional_drop
alias proportional_div := Genlm.ln_proportional_div
alias zero_rules_irrelevant := Genlm.WN_dropZero
alias eos_wrapping := Genlm.addEOS_spec
alias eos_append := Genlm.addEOS_append
alias eos_zero_otherwise := Genlm.addEOS_zero

/-! ## at the limit (ℝ≥0∞): Z = the true total weights `ZL` (least solution), finite -/
alias proportional_limit := Genlm.ln_WL_ZL_div
alias heads_sum_to_one_limit := Genlm.ln_heads_sum_one_ZL
/-- the locally normalised grammar has total weight one -/
alias total_weight_one_limit := Genlm.ln_ZL_one
alias eos_wrapping_limit := Genlm.addEOS_WL
alias eos_append_limit := Genlm.addEOS_WL_append

/-! ## re-checked tie to the source: the definitions REGENERATED from the Python functions on every run
(`Generated/Builders.lean` / `Generated/Folds.lean`, by `harness/translate.py`) are the hand-written models the theorems here are about -/
alias gen_Chart_product_eq_model := Genlm.gen_Chart_product_eq_model
alias gen_Chart_product_in_locally_normalize := Genlm.gen_Chart_product_lnWeight
end Genlm.Props.C20
