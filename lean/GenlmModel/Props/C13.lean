import Batteries.Tactic.Alias
import GenlmModel.Proofs.MinDet
import GenlmModel.Proofs.Wfsa2
import GenlmModel.Proofs.Det
import GenlmModel.Proofs.LimWfsa
/-! # C13 — pushing and trimming preserve the language (determinisation: decided per output) -/
namespace Genlm.Props.C13
/-- pushing preserves every string weight when states of zero backward weight accept nothing -/
alias push_preserves := Genlm.push_preserves
alias push_preserves_of_coaccessible := Genlm.push_preserves_of_coacc
alias push_preserves_nonneg := Genlm.push_preserves_nonneg
alias push_exact := Genlm.push_Qk
/-- every kept state's outgoing arc weights plus final weight sum to one -/
alias push_stochastic := Genlm.push_stochastic
alias trim_preserves := Genlm.wfsa_trim_Pk
/-- kept states are exactly those on an accepting path -/
alias trim_useful := Genlm.wfsa_trim_useful
alias trim_vals_preserves_nonneg := Genlm.trimVals_Pk_nonneg
alias accessible_spec := Genlm.mem_accessible
/-- Mohri's weighted subset construction (model of `determinize`): whenever it terminates the result has
one initial state, no ε arc and at most one arc per state and symbol … -/
alias determinize_deterministic := Genlm.det_deterministic
/-- … and assigns every string the weight of the input (any field, weights of any sign) -/
alias determinize_preserves := Genlm.det_preserves
alias determinize_forward_invariant := Genlm.det_forward_invariant
alias determinize_no_zero_division_of_positive := Genlm.det_no_zeroDiv_of_pos
/-- determinisation-based minimisation (reverse, determinize, trim, twice): same weights, deterministic result -/
alias min_det_preserves := Genlm.minDet_preserves
alias min_det_deterministic := Genlm.minDet_result_deterministic
alias min_det_with_push_preserves := Genlm.minDet_push_preserves_of_coacc

alias trim_preserves_limit := Genlm.trim_PL
end Genlm.Props.C13
