import GenlmModel.Proofs.GenLink.WfsaPush
import Batteries.Tactic.Alias
import GenlmModel.Proofs.MinDet
import GenlmModel.Proofs.Wfsa2
import GenlmModel.Proofs.Det
import GenlmModel.Proofs.LimWfsa
import GenlmModel.Proofs.LimPush
/-! # C13 — pushing and trimming preserve the language (determinisation: decided per output) -/
namespace Genlm.Props.C13
/-- pushing preserves every string weight when states of zero backward weight accept nothing -/
alias push_preserves := Genlm.push_preserves
alias push_preserves_of_coaccessible := Genlm.push_preserves_of_coacc
alias push_preserves_nonneg := Genlm.push_preserves_nonneg
alias push_exact := Genlm.push_Qk
/-- every kept state's outgoing arc weights plus final weight sum to one -/
alias push_stochastic := Genlm.push_stochastic
alias trim_preserves := Genlm.wfsa_trim_Pk
/-- kept states are exactly those on an accepting path -/
alias trim_useful := Genlm.wfsa_trim_useful
alias trim_vals_preserves_nonneg := Genlm.trimVals_Pk_nonneg
alias accessible_spec := Genlm.mem_accessible
/-- Mohri's weighted subset construction (model of `determinize`): whenever it terminates the result has
one initial state, no ε arc and at most one arc per state and symbol … -/
alias determinize_deterministic := Genlm.det_deterministic
/-- … and assigns every string the weight of the input (any field, weights of any sign) -/
alias determinize_preserves := Genlm.det_preserves
alias determinize_forward_invariant := Genlm.det_forward_invariant
alias determinize_no_zero_division_of_positive := Genlm.det_no_zeroDiv_of_pos
/-- determinisation-based minimisation (reverse, determinize, trim, twice): same weights, deterministic result -/
alias min_det_preserves := Genlm.minDet_preserves
alias min_det_deterministic := Genlm.minDet_result_deterministic
alias min_det_with_push_preserves := Genlm.minDet_push_preserves_of_coacc

alias trim_preserves_limit := Genlm.trim_PL
/-! ## at the limit (ℝ≥0∞): machines with ε arcs and cycles, TRUE backward weights `bwdL` (least solution) -/
/-- states the code drops (zero backward weight) carry no weight -/
alias dropped_states_carry_nothing := Genlm.bwdL_dead
/-- pushing preserves every string weight as soon as initial states of non-zero weight have finite backward weight … -/
alias push_preserves_limit := Genlm.push_PL_init
alias push_preserves_limit_of_finite_total := Genlm.push_PL_of_total_finite
/-- … and that hypothesis is necessary; without it weight can only be lost, and exactly this much -/
alias push_loss_accounted := Genlm.push_PL_add_lost
/-- every kept state of finite potential becomes stochastic -/
alias push_stochastic_limit := Genlm.push_stochastic_L
/-- the repaired loop of `push` (arcs into zero-potential states are skipped, fix F17) has the same weights as the model -/
alias push_drop_same_weights := Genlm.pushDrop_Pk
alias push_drop_preserves_limit := Genlm.pushDrop_PL
alias push_drop_stochastic_limit := Genlm.pushDrop_stochastic_L
/-- `trim_vals` with true forward/backward weights preserves every string weight, no hypothesis -/
alias trim_vals_preserves_limit := Genlm.trimVals_PL
/-- THE determinisation pipeline as the code runs it (`self.epsremove.push`, then the subset construction), ε-acyclic input over a
field: one initial state, no ε arc, ≤ 1 arc per state and symbol, and every string keeps its weight -/
alias determinize_pipeline_preserves := Genlm.determinize_pipeline_preserves
alias determinize_pipeline_preserves_decidable := Genlm.determinize_pipeline_preserves_states
alias determinize_pipeline_drop_preserves := Genlm.determinize_pipelineDrop_preserves
alias min_det_pipeline_preserves := Genlm.minDet_pipeline_preserves

/-! ## re-checked tie to the source: the definitions REGENERATED from the Python functions on every run
(`Generated/Builders.lean` / `Generated/Folds.lean`, by `harness/translate.py`) are the hand-written models the theorems here are about -/
alias gen_WFSA_push_eq_model := Genlm.gen_WFSA_push_eq_model
alias gen_WFSA_push_path_sums := Genlm.gen_WFSA_push_Pk
alias gen_WFSA_trim_eq_model := Genlm.gen_WFSA_trim_eq_model
end Genlm.Props.C13
