import GenlmModel.Proofs.GenLink.CfgSpawn
import GenlmModel.Proofs.GenLink.CfgUnfold
import Batteries.Tactic.Alias
import GenlmModel.Proofs.UCycle
import GenlmModel.Proofs.SepStart
import GenlmModel.Proofs.Tab
import GenlmModel.Proofs.Norm
import GenlmModel.Proofs.TrimSem
import GenlmModel.Proofs.Sem2
import GenlmModel.Proofs.Sem2Bin
import GenlmModel.Proofs.Sem2Null
import GenlmModel.Proofs.Sem2Unary
import GenlmModel.Proofs.LimTransforms
import GenlmModel.Proofs.LimTransforms2
/-! # C06 — transformations preserve the weighted language
Level identities / cofinality statements about the mirror models, every commutative semiring. -/
namespace Genlm.Props.C06
alias trim_preserves := Genlm.trim_preserves
alias cotrim_preserves := Genlm.cotrim_preserves
alias trim_preserves_at_reachable := Genlm.trim_preserves_at
alias separate_start_preserves := Genlm.separateStart_preserves
alias separate_start_level_identity := Genlm.sepStart_spec
/-- unfolding a rule: the two grammars bound each other level-wise (so they have the same limit) -/
alias unfold_preserves := Genlm.unfold_preserves
alias unfold_limit := Genlm.unfold_limit
alias injective_renaming_level_identity := Genlm.WN_rename
alias zero_rules_irrelevant := Genlm.WN_dropZero
alias rule_order_irrelevant := Genlm.WN_perm
/-- terminal separation: the two grammars bound each other with a shift of one level -/
alias separate_terminals_preserves := Genlm.separateTerminals_preserves
alias separate_terminals_limit := Genlm.separateTerminals_limit
/-- binarisation: cofinal with stretch factor (longest body − 1) -/
alias binarize_preserves := Genlm.binarize_preserves
alias binarize_limit := Genlm.binarize_limit
alias separate_terminals_then_binarize := Genlm.separateTerminals_binarize_preserves
/-- removal of empty rules, RELATIVE to null weights that bound / are attained by the ε-derivation sums -/
alias push_null_preserves := Genlm.pushNull_preserves
alias push_null_limit := Genlm.pushNull_limit
alias push_null_empty_string_start := Genlm.pushNull_nil_start
alias push_null_empty_string_other := Genlm.pushNull_nil_other
alias null_weights_from_prefixed_point := Genlm.WN_nil_le_of_prefixed
/-- removal of unary rules, RELATIVE to a closure W of the unary matrix -/
alias unaryremove_preserves := Genlm.unaryRemove_preserves
alias unaryremove_limit := Genlm.unaryRemove_limit
alias unary_closure_from_prefixed_point := Genlm.UW_le_of_prefixed
/-- unary-cycle removal, relative to the block closures -/
alias unarycycleremove_preserves := Genlm.ucycle_preserves
alias unarycycleremove_limit := Genlm.ucycle_limit

/-! ## at the limit (ℝ≥0∞): the TRUE weighted language `WL` (sum over all, possibly infinitely many, derivation trees) -/
alias trim_limit := Genlm.trim_WL
alias cotrim_limit := Genlm.cotrim_WL
alias separate_start_limit := Genlm.separateStart_WL
alias separate_terminals_true_limit := Genlm.separateTerminals_WL
alias binarize_true_limit := Genlm.binarize_WL
alias unfold_true_limit := Genlm.unfold_WL
alias renaming_limit := Genlm.rename_WL
alias rule_order_limit := Genlm.perm_WL
/-- removal of empty rules with the TRUE null weights (sums over infinitely many ε-derivations; no attainment hypothesis) -/
alias nullary_removal_true_limit := Genlm.pushNull_WL
alias nullary_removal_true_limit_start := Genlm.pushNull_WL_start
/-- removal of unary rules with the TRUE closure of the unary graph (cyclic unary parts included), no hypothesis -/
alias unary_removal_true_limit := Genlm.unaryRemove_WL
/-- removal of unary cycles with the true block closures -/
alias unary_cycle_removal_true_limit := Genlm.ucycle_WL
/-- THE pipeline theorem: the model of `cnf()` with true null weights and true unary closure yields a grammar in CNF with
exactly the weighted language of the input — every string, the empty one included -/
alias cnf_correct_limit := Genlm.cnfL_correct
alias cnf_preserves_limit := Genlm.cnfL_WL

/-! ## re-checked tie to the source: the definitions REGENERATED from the Python functions on every run
(`Generated/Builders.lean` / `Generated/Folds.lean`, by `harness/translate.py`) are the hand-written models the theorems here are about -/
alias gen_CFG_spawn_eq_model := Genlm.gen_CFG_spawn_eq_model
alias gen_CFG_spawn_start := Genlm.gen_CFG_spawn_start
alias gen_CFG_separate_start_eq_model := Genlm.gen_CFG_separate_start_eq_model
alias gen_CFG_rename_eq_model := Genlm.gen_CFG_rename_eq_model
alias gen_CFG_separate_start_derivation_sums := Genlm.gen_CFG_separate_start_WN
alias gen_CFG_unfold_eq_model := Genlm.gen_CFG_unfold_eq_model
alias gen_CFG_unfold_none := Genlm.gen_CFG_unfold_none
end Genlm.Props.C06
