import Batteries.Tactic.Alias
import GenlmModel.Proofs.SepStart
import GenlmModel.Proofs.Tab
import GenlmModel.Proofs.Norm
import GenlmModel.Proofs.TrimSem
/-! # C06 — transformations preserve the weighted language
Level identities / cofinality statements about the mirror models, every commutative semiring. -/
namespace Genlm.Props.C06
alias trim_preserves := Genlm.trim_preserves
alias cotrim_preserves := Genlm.cotrim_preserves
alias trim_preserves_at_reachable := Genlm.trim_preserves_at
alias separate_start_preserves := Genlm.separateStart_preserves
alias separate_start_level_identity := Genlm.sepStart_spec
/-- unfolding a rule: the two grammars bound each other level-wise (so they have the same limit) -/
alias unfold_preserves := Genlm.unfold_preserves
alias unfold_limit := Genlm.unfold_limit
alias injective_renaming_level_identity := Genlm.WN_rename
alias zero_rules_irrelevant := Genlm.WN_dropZero
alias rule_order_irrelevant := Genlm.WN_perm
end Genlm.Props.C06
