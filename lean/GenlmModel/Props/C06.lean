import GenlmModel.Model.Basic
namespace Genlm.Props.C06
end Genlm.Props.C06
