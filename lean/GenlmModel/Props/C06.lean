import Batteries.Tactic.Alias
import GenlmModel.Proofs.UCycle
import GenlmModel.Proofs.SepStart
import GenlmModel.Proofs.Tab
import GenlmModel.Proofs.Norm
import GenlmModel.Proofs.TrimSem
import GenlmModel.Proofs.Sem2
import GenlmModel.Proofs.Sem2Bin
import GenlmModel.Proofs.Sem2Null
import GenlmModel.Proofs.Sem2Unary
/-! # C06 — transformations preserve the weighted language
Level identities / cofinality statements about the mirror models, every commutative semiring. -/
namespace Genlm.Props.C06
alias trim_preserves := Genlm.trim_preserves
alias cotrim_preserves := Genlm.cotrim_preserves
alias trim_preserves_at_reachable := Genlm.trim_preserves_at
alias separate_start_preserves := Genlm.separateStart_preserves
alias separate_start_level_identity := Genlm.sepStart_spec
/-- unfolding a rule: the two grammars bound each other level-wise (so they have the same limit) -/
alias unfold_preserves := Genlm.unfold_preserves
alias unfold_limit := Genlm.unfold_limit
alias injective_renaming_level_identity := Genlm.WN_rename
alias zero_rules_irrelevant := Genlm.WN_dropZero
alias rule_order_irrelevant := Genlm.WN_perm
/-- terminal separation: the two grammars bound each other with a shift of one level -/
alias separate_terminals_preserves := Genlm.separateTerminals_preserves
alias separate_terminals_limit := Genlm.separateTerminals_limit
/-- binarisation: cofinal with stretch factor (longest body − 1) -/
alias binarize_preserves := Genlm.binarize_preserves
alias binarize_limit := Genlm.binarize_limit
alias separate_terminals_then_binarize := Genlm.separateTerminals_binarize_preserves
/-- removal of empty rules, RELATIVE to null weights that bound / are attained by the ε-derivation sums -/
alias push_null_preserves := Genlm.pushNull_preserves
alias push_null_limit := Genlm.pushNull_limit
alias push_null_empty_string_start := Genlm.pushNull_nil_start
alias push_null_empty_string_other := Genlm.pushNull_nil_other
alias null_weights_from_prefixed_point := Genlm.WN_nil_le_of_prefixed
/-- removal of unary rules, RELATIVE to a closure W of the unary matrix -/
alias unaryremove_preserves := Genlm.unaryRemove_preserves
alias unaryremove_limit := Genlm.unaryRemove_limit
alias unary_closure_from_prefixed_point := Genlm.UW_le_of_prefixed
/-- unary-cycle removal, relative to the block closures -/
alias unarycycleremove_preserves := Genlm.ucycle_preserves
alias unarycycleremove_limit := Genlm.ucycle_limit
end Genlm.Props.C06
