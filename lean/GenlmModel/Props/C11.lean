import GenlmModel.Model.Basic
namespace Genlm.Props.C11
end Genlm.Props.C11
