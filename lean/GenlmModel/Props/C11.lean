import GenlmModel.Proofs.GenLink.WfsaEps
import Batteries.Tactic.Alias
import GenlmModel.Proofs.Wfsa
import GenlmModel.Proofs.Wfsa2
import GenlmModel.Proofs.LimWfsa
/-! # C11 — automaton string weight = sum over accepting paths -/
namespace Genlm.Props.C11
/-- the driver's dynamic programme is the path-sum specification (ε arcs and cycles allowed) -/
alias oracle_is_path_sum := Genlm.PNtab_spec
/-- the loop of `WFSA.__call__` on an ε-free machine is the sum over accepting paths -/
alias forward_correct := Genlm.forward_correct
alias forward_correct_PN := Genlm.forward_correct_PN
alias epsfree_paths_have_string_length := Genlm.Qk_epsfree_length
/-- ε-removal (given the closure of the ε-graph) leaves no ε arc … -/
alias epsremove_epsfree := Genlm.epsremove_epsfree
/-- … and, for ε-acyclic machines, the same string weights -/
alias epsremove_correct := Genlm.epsremove_correct_PN
alias call_is_path_sum := Genlm.forward_epsremove
/-- total weight as the start-weighted backward solution -/
alias total_weight_eq := Genlm.totalWeight_eq

/-! ## at the limit (ℝ≥0∞): `PL A x` = sum over ALL accepting paths spelling x, through ε arcs and ε CYCLES -/
alias path_sum_is_series := Genlm.PL_eq_tsum
/-- ε-removal with the true closure of the ε-graph: no ε arc, same weights — no acyclicity hypothesis -/
alias epsremove_correct_cyclic := Genlm.epsremove_correct_PL
alias epsremove_preserves_cyclic := Genlm.epsremove_PL
/-- `WFSA.__call__` (ε-removal, then the forward loop) is the sum over all accepting paths -/
alias call_is_path_sum_cyclic := Genlm.forward_epsremove_PL
alias epsremove_hypotheses_satisfiable := Genlm.epsremove_epsStarL
/-- total weight = sum over all strings of the path sums = start-weighted least backward solution -/
alias total_weight_is_sum_over_strings := Genlm.tsum_PL_eq_totalWeight
alias backward_is_least_solution := Genlm.bwdL_least

/-! ## re-checked tie to the source: the definitions REGENERATED from the Python functions on every run
(`Generated/Builders.lean` / `Generated/Folds.lean`, by `harness/translate.py`) are the hand-written models the theorems here are about -/
alias gen_WFSA_epsremove_eq_model := Genlm.gen_WFSA_epsremove_eq_model
end Genlm.Props.C11
