import Batteries.Tactic.Alias
import GenlmModel.Proofs.Wfsa
/-! # C11 — automaton string weight = sum over accepting paths -/
namespace Genlm.Props.C11
/-- the driver's dynamic programme is the path-sum specification (ε arcs and cycles allowed) -/
alias oracle_is_path_sum := Genlm.PNtab_spec
/-- the loop of `WFSA.__call__` on an ε-free machine is the sum over accepting paths -/
alias forward_correct := Genlm.forward_correct
alias forward_correct_PN := Genlm.forward_correct_PN
alias epsfree_paths_have_string_length := Genlm.Qk_epsfree_length
end Genlm.Props.C11
