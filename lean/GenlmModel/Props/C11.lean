import Batteries.Tactic.Alias
import GenlmModel.Proofs.Wfsa
import GenlmModel.Proofs.Wfsa2
/-! # C11 — automaton string weight = sum over accepting paths -/
namespace Genlm.Props.C11
/-- the driver's dynamic programme is the path-sum specification (ε arcs and cycles allowed) -/
alias oracle_is_path_sum := Genlm.PNtab_spec
/-- the loop of `WFSA.__call__` on an ε-free machine is the sum over accepting paths -/
alias forward_correct := Genlm.forward_correct
alias forward_correct_PN := Genlm.forward_correct_PN
alias epsfree_paths_have_string_length := Genlm.Qk_epsfree_length
/-- ε-removal (given the closure of the ε-graph) leaves no ε arc … -/
alias epsremove_epsfree := Genlm.epsremove_epsfree
/-- … and, for ε-acyclic machines, the same string weights -/
alias epsremove_correct := Genlm.epsremove_correct_PN
alias call_is_path_sum := Genlm.forward_epsremove
/-- total weight as the start-weighted backward solution -/
alias total_weight_eq := Genlm.totalWeight_eq
end Genlm.Props.C11
