import Batteries.Tactic.Alias
import GenlmModel.Proofs.MemoOps
import GenlmModel.Proofs.IncCky
import GenlmModel.Proofs.Earley
/-! # C05 — incremental parsing is history-independent
The cache discipline of `Earley.chart` / `IncrementalCKY.chart` (memo table keyed by the prefix,
computed from the chart of the prefix's prefix) for an ARBITRARY pure column function `ext`. -/
namespace Genlm.Props.C05
/-- for every sequence of `chart p` / `clear` / `seed` operations the answers are those of a fresh object -/
alias history_independent := Genlm.history_independent
alias chart_after_history := Genlm.chart_after_history
alias memo_transparent := Genlm.chartM_transparent
alias runOps_spec := Genlm.runOps_spec
/-- instantiated for the CKY column function: the cached chart of a prefix is the chart computed from scratch -/
alias incremental_cky_memo_transparent := Genlm.incCky_memo_transparent
alias incremental_cky_chart_is_pure := Genlm.ckyChart_eq_pureChart
alias earley_memo_transparent := Genlm.earley_memo_transparent
end Genlm.Props.C05
