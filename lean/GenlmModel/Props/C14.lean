import Batteries.Tactic.Alias
import GenlmModel.Proofs.Cert
import GenlmModel.Proofs.Tzeng
import GenlmModel.Proofs.TzengMin
import GenlmModel.Proofs.Simple
/-! # C14 — equivalence and minimality certificates (exact arithmetic) -/
namespace Genlm.Props.C14
/-- an accepted certificate proves equal weights on ALL words -/
alias equivalence_certificate_sound := Genlm.equivCert_sound
alias zero_certificate_sound := Genlm.zeroCert_sound
alias difference_automaton := Genlm.diff_weight
alias counterexample_sound := Genlm.counterexample_sound
/-- an accepted Hankel-minor certificate bounds the size of EVERY equivalent automaton from below -/
alias hankel_lower_bound := Genlm.rankLower_sound
/-! ## the equivalence test itself (model of `Simple.counterexample` with exact tests, any iteration order of the alphabet) -/
/-- a returned string really is a counterexample, with the two weights reported -/
alias counterexample_returned_is_genuine := Genlm.counterexampleQ_sound
/-- "no counterexample" is reported only for automata that agree on ALL strings -/
alias no_counterexample_means_equivalent := Genlm.counterexampleQ_equiv_sound
/-- the search terminates within dim A + dim B worklist pops (ordered fields: no isotropic vectors) -/
alias equivalence_test_terminates := Genlm.counterexampleQ_terminates
/-- THE decision theorem over ℚ: no counterexample ⇔ equal weights on all strings; `==` agrees with language equality -/
alias equivalence_test_decides := Genlm.equiv_decides_rat
alias equality_operator_decides := Genlm.equivQ_rat
/-- minimisation (model of forward_conjugate ∘ backward_conjugate with exact Gram–Schmidt / pseudo-inverse): terminates, equivalent,
number of states = rank of the Hankel matrix = the minimum over all equivalent automata -/
alias min_is_hankel_rank := Genlm.minQ_spec
alias min_terminates := Genlm.minQ_terminates
alias forward_basis_spans_forward_space := Genlm.forwardBasisQ_spec
alias hankel_rank_lower_bound := Genlm.hankelRank_le_dim

/-! ## from the user's automata (ε arcs) to the matrix form and back -/
/-- `WFSA.simple` (ε-removal, dense start/arc/stop matrices) has the automaton's string weights -/
alias simple_has_same_weights := Genlm.simple_weight
alias simple_has_same_weights_limit := Genlm.simple_weight_PL
/-- THE end-to-end decision theorem on automata with ε arcs: no counterexample ⇔ equal weights on all strings -/
alias field_equivalence_decides := Genlm.field_eq_decides
alias field_counterexample_genuine := Genlm.field_counterexample_sound
/-- `WFSA.min = simple.min.to_wfsa()`: ε-free, same weights, Hankel-rank many states -/
alias field_min_end_to_end := Genlm.field_min_wfsa
end Genlm.Props.C14
