import GenlmModel.Model.Basic
namespace Genlm.Props.C14
end Genlm.Props.C14
