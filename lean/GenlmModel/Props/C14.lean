import Batteries.Tactic.Alias
import GenlmModel.Proofs.Cert
/-! # C14 — equivalence and minimality certificates (exact arithmetic) -/
namespace Genlm.Props.C14
/-- an accepted certificate proves equal weights on ALL words -/
alias equivalence_certificate_sound := Genlm.equivCert_sound
alias zero_certificate_sound := Genlm.zeroCert_sound
alias difference_automaton := Genlm.diff_weight
alias counterexample_sound := Genlm.counterexample_sound
/-- an accepted Hankel-minor certificate bounds the size of EVERY equivalent automaton from below -/
alias hankel_lower_bound := Genlm.rankLower_sound
end Genlm.Props.C14
