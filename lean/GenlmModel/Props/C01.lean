import GenlmModel.Model.Basic
namespace Genlm.Props.C01
end Genlm.Props.C01
