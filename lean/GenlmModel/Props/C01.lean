import Batteries.Tactic.Alias
import GenlmModel.Proofs.PrefixWeight
import GenlmModel.Proofs.BoolLink
import GenlmModel.Proofs.Mask
import GenlmModel.Proofs.AddEosDerives
import GenlmModel.Proofs.EndToEndLMBool
/-! # C01 — the next-token mask is exactly the set of viable continuations
The oracle `nextSet` the real `BoolCFGLM.p_next` is compared with is a verified decision procedure:
for EVERY grammar (ε rules, unary cycles, useless symbols, empty language) and EVERY context. -/
namespace Genlm.Props.C01
variable {σ K : Type} [DecidableEq σ]

/-- `t` is offered iff it is a terminal and `c ++ [t]` can be completed to a sentence -/
theorem mask_is_viable_continuations (G : CFG σ K) (c : List σ) (t : σ) :
    t ∈ nextSet G c ↔ t ∈ G.V ∧ ∃ y, Derives G G.S (c ++ t :: y) := Genlm.nextSet_spec G c t

/-- a context that no sentence extends gets the empty mask -/
theorem mask_empty_of_not_viable (G : CFG σ K) (c : List σ) (h : ¬ ∃ y, Derives G G.S (c ++ y)) :
    nextSet G c = [] := Genlm.nextSet_empty_of_not_viable G c h

theorem viable_decides (G : CFG σ K) (c : List σ) : viable G c = true ↔ ∃ y, Derives G G.S (c ++ y) :=
  Genlm.viable_spec G c

theorem sentence_decides (G : CFG σ K) (c : List σ) : derivesB G c = true ↔ Derives G G.S c :=
  Genlm.derivesB_spec G c

/-- EOS wrapping at the level of derivations (the grammar the driver builds) -/
alias eos_wrapping := Genlm.addEOS_derives_driver
/-- EOS is offered exactly when the context is a sentence of the original grammar -/
alias eos_offered_iff_sentence := Genlm.eos_mem_nextSet
/-- an ordinary token is offered exactly when the context extended by it is a viable prefix of the original grammar -/
alias token_offered_iff_viable := Genlm.mem_nextSet_addEOS
/-- rule order is irrelevant -/
alias rule_order_irrelevant := Genlm.Derives_perm
/-- the Boolean layer: derivability = some Boolean derivation sum is true -/
alias derives_iff_boolean_WN := Genlm.Derives_iff_WN_bool
/-- the mask in terms of Boolean derivation sums … -/
alias mask_via_WN := Genlm.mask_via_WN
/-- … and as the support of the prefix grammar `G @ prefix_transducer` (what BoolCFGLM's parsers run on) -/
alias mask_via_prefix_grammar := Genlm.mask_via_prefix_grammar

/-! ## END TO END: `BoolCFGLM.p_next` as the code runs it — EOS wrapping, Boolean map (`w > 0`), prefix grammar, the back end's
preprocessing (cnf twice for CKY; nullaryremove / unarycycleremove / renumber for Earley) and its next-token recursion -/
/-- THE mask theorem: a token is offered iff it is in the verified decision procedure's `nextSet`; an ordinary token iff the
extended context is a viable prefix, EOS iff the context is a sentence, and a non-viable context gets the empty mask -/
alias bool_lm_end_to_end := Genlm.bool_lm_end_to_end
alias bool_lm_end_to_end_positive_weights := Genlm.bool_lm_end_to_end_pos
/-- instances for the two back ends -/
alias bool_cfg_lm_cky := Genlm.bool_cfg_lm_cky
alias bool_cfg_lm_earley := Genlm.bool_cfg_lm_earley
/-- the Boolean preprocessing (cnf with the true Boolean null weights / closure, which always stabilise) preserves the language -/
alias cnf_bool_preserves := Genlm.cnfB_BL_E10
alias cky_mask_on_cnf := Genlm.incCky_mask_E10
alias earley_mask_on_acyclic := Genlm.earley_mask_E10
end Genlm.Props.C01
