import GenlmModel.Proofs.GenLink.CfgSpawn
import Batteries.Tactic.Alias
import GenlmModel.Proofs.Prio
import GenlmModel.Proofs.Cky
import GenlmModel.Proofs.Tab
import GenlmModel.Proofs.Fast
import GenlmModel.Proofs.IncCky
import GenlmModel.Proofs.EarleyQ
import GenlmModel.Proofs.EndToEnd
import GenlmModel.Proofs.GapMaterialize
import GenlmModel.Proofs.EarleyRescaled
/-! # C02 — every parser returns the derivation-sum weight of a string
Headline statements only (proofs live in `Proofs/`).  `WN G n X x` is the sum of the weights of the
derivation trees of height ≤ n of `x` from `X`; all statements hold in EVERY commutative semiring
(so with rule weights as free indeterminates, `MvPolynomial ι ℕ`), for every grammar and string. -/
namespace Genlm.Props.C02
variable {σ K : Type} [DecidableEq σ] [CommSemiring K]

/-- CKY leg (`CFG._parse_chart`, `IncrementalCKY`): for every CNF grammar the CKY recurrence with
fuel |x|+1 returns the derivation sum at every level n > |x| — in particular the derivation sum of
a CNF grammar is a finite sum, `0` for strings outside the language and for `[]` without a nullary
start rule. -/
theorem cky_correct (G : CFG σ K) (h : InCNF G) (x : List σ) (X : σ) (n : Nat) (hn : x.length + 1 ≤ n) :
    insN G (x.length + 1) x X = WN G n X x := Genlm.cky_correct G h x X n hn

/-- the oracle the real parsers are compared with: the driver's memo table IS `WN` -/
theorem oracle_table_is_WN (G : CFG σ K) (xs : List (List σ)) (n : Nat) (X : σ) (u : List σ)
    (hu : ∃ x ∈ xs, u <:+: x) : (WNtab G (tabKeys G xs) n).get X u = WN G n X u :=
  Genlm.WNtab_spec G xs n X u hu

/-- when the driver reports `stable`, the value is the full (finite) derivation sum -/
theorem oracle_stable_is_limit (G : CFG σ K) (xs : List (List σ)) (n : Nat) (X : σ) (u : List σ)
    (hu : ∃ x ∈ xs, u <:+: x) (h : WNtab G (tabKeys G xs) (n + 1) = WNtab G (tabKeys G xs) n) :
    ∀ m, n ≤ m → WN G m X u = WN G n X u := Genlm.WN_stable_of_tab G xs n X u hu h

/-- independence of rule order (hence of anything that only permutes the rule list, e.g. hash seeds) -/
theorem rule_order_irrelevant (G : CFG σ K) (rules' : List (Rule σ K)) (hp : rules'.Perm G.rules) :
    ∀ n X x, WN {G with rules := rules'} n X x = WN G n X x := Genlm.WN_perm G rules' hp

/-- independence of symbol names (injective renaming) -/
theorem names_irrelevant {τ : Type} [DecidableEq τ] (f : σ → τ) (hf : Function.Injective f) (G : CFG σ K) :
    ∀ n X x, WN (renameCFG f G) n (f X) (x.map f) = WN G n X x := Genlm.WN_rename f hf G

/-- non-vacuity: a CNF grammar with a non-zero value -/
example : InCNF (⟨0, [5], [⟨2, 0, [1, 1]⟩, ⟨3, 1, [5]⟩]⟩ : CFG ℕ ℕ) ∧
    insN (⟨0, [5], [⟨2, 0, [1, 1]⟩, ⟨3, 1, [5]⟩]⟩ : CFG ℕ ℕ) 3 [5, 5] 0 = 18 := by
  constructor
  · intro r hr
    simp only [List.mem_cons, List.not_mem_nil, or_false] at hr
    rcases hr with rfl | rfl
    · refine ⟨by decide, Or.inr (Or.inr ⟨1, 1, rfl, by decide, by decide, by decide, by decide⟩)⟩
    · exact ⟨by decide, Or.inr (Or.inl ⟨5, rfl, by decide⟩)⟩
  · decide

/-- the step the native driver runs (no split enumeration at terminals) is the specification step -/
alias driver_step_is_spec := Genlm.tabStepFast_eq
alias fast_body_weight_is_spec := Genlm.WbodyFast_eq

/-- model of `IncrementalCKY` (extend_chart column by column): every chart entry is the derivation sum of its span … -/
alias incremental_cky_entry := Genlm.incCky_entry
/-- … so `IncrementalCKY(cfg)(x)` is the derivation sum -/
alias incremental_cky_call := Genlm.incCky_call
/-- model of `CFG._parse_chart` (what `cfg(x)` runs on the normal form) -/
alias parse_chart_is_derivation_sum := Genlm.cfgParse_eq_WN
alias parse_chart_eq_incremental := Genlm.cfgParse_eq_incCkyCall

/-- EARLEY: the model of `Earley.next_column`/`PREDICT`/`_update` with the agenda as a priority queue (any pop among the
maximal-priority items), on a grammar without nullary rules and unary cycles with a topological `order`, returns the
derivation sum — every tie-breaking of the heap included -/
alias earley_correct := Genlm.earleyQ_correct
alias earley_correct_fixed_schedule := Genlm.earley_correct
alias earley_any_admissible_schedule := Genlm.earley_correct_sched
/-- the priority expression generated from the source yields an admissible schedule -/
alias earley_priority_schedule_ok := Genlm.EarleyAux.schedule_ok
/-- for such grammars the derivation sum is a finite sum, reached at level |x|·M + 1 -/
alias derivation_sum_finite := Genlm.WN_stable


/-! ## END TO END at the limit (ℝ≥0∞): parser model ∘ model of its preprocessing = sum over ALL derivation trees `WL G S x`,
for EVERY grammar (nullary rules, unary cycles, any arity), every string incl. the empty one -/
/-- direct evaluation `cfg(x)`: CKY on the model of `cnf()` (true null weights / closures) -/
alias cfg_call_is_derivation_sum := Genlm.cfg_call_is_WL
/-- `IncrementalCKY(cfg.cnf)(x)` -/
alias incremental_cky_is_derivation_sum := Genlm.inc_cky_call_is_WL
/-- Earley's preprocessing `nullaryremove(binarize=False).unarycycleremove()` establishes the parser's preconditions and preserves WL … -/
alias earley_preprocessing_correct := Genlm.nullaryRemoveL_correct
alias earley_preprocessing_acyclic := Genlm.ucycle_acyc_E1
/-- … the order the code computes (buckets of the transposed unary graph) is an admissible topological order … -/
alias earley_order_is_topological := Genlm.topoOrder_of_buckets_E1
/-- … so `Earley(cfg)(x)` (priority-queue agenda, any tie-breaking), renumbering included, is the derivation sum -/
alias earley_call_is_derivation_sum := Genlm.earley_call_as_run_is_WL
alias earley_call_is_derivation_sum_any_order := Genlm.earley_call_is_WL
alias earley_empty_string := Genlm.earley_call_nil_is_WL
/-- all parsers agree -/
alias parsers_agree := Genlm.parsers_agree_as_run

/-- tabulating the language up to a length bound (`materialize`: bounded-height enumeration of the CNF grammar, then the length
filter) lists exactly the strings of at most that length with non-zero weight, with these weights — for every grammar -/
alias materialize_lists_exactly_nonzero_strings := Genlm.materialize_cnfL
alias materialize_on_cnf := Genlm.mem_materializeOf
alias materialize_general_semiring := Genlm.mem_materializeOf_general
alias language_values := Genlm.wlook_language

/-! ## the RESCALED Earley parser (model of parse/earley_rescaled.py: per-column coefficients, SCAN multiplies, `__call__` divides) -/
/-- every chart entry of the rescaled run is the plain run's entry times the product of the coefficients of its span — any
non-zero coefficients -/
alias rescaled_scaling_invariant := Genlm.earleyRescaled_invariant
/-- `__call__` undoes the scaling exactly: same value as the plain parser, hence the derivation sum; no viability hypothesis -/
alias rescaled_call_eq_plain := Genlm.earleyRescaled_call
alias rescaled_call_is_derivation_sum := Genlm.earleyRescaled_correct
alias rescaled_any_coefficients_correct := Genlm.earleyRescaled_const_correct
/-- the code's own coefficients are never zero (it never divides by zero) -/
alias rescaled_coefficients_nonzero := Genlm.rescaleChoice_ne_zero

/-! ## re-checked tie to the source: the definitions REGENERATED from the Python functions on every run
(`Generated/Builders.lean` / `Generated/Folds.lean`, by `harness/translate.py`) are the hand-written models the theorems here are about -/
alias gen_CFG_spawn_eq_model := Genlm.gen_CFG_spawn_eq_model
alias gen_CFG_spawn_start := Genlm.gen_CFG_spawn_start
alias gen_CFG_separate_start_eq_model := Genlm.gen_CFG_separate_start_eq_model
alias gen_CFG_rename_eq_model := Genlm.gen_CFG_rename_eq_model
end Genlm.Props.C02
