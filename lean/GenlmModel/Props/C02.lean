import GenlmModel.Model.Basic
namespace Genlm.Props.C02
end Genlm.Props.C02
