import GenlmModel.Proofs.Semiring
/-! # C16 — semiring laws.  The theorems are in namespace `Genlm.SemiringLaws.<Type>` (audited with this
property); they are ABOUT `Generated/Semiring.lean`, regenerated from semiring.py on every run. -/
namespace Genlm.Props.C16
open Genlm.SemiringLaws in
/-- sample headline: Expectation star law on its domain -/
theorem expectation_star {T : Type} [Field T] (a : T × T) (h : a.1 ≠ 1) :
    Gen.Expectation.star a = Gen.Expectation.add Gen.Expectation.oneV (Gen.Expectation.mul a (Gen.Expectation.star a)) :=
  Expectation.star_left' a h
end Genlm.Props.C16
