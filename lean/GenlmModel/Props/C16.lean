import GenlmModel.Model.Basic
namespace Genlm.Props.C16
end Genlm.Props.C16
