import Batteries.Tactic.Alias
import GenlmModel.Proofs.Fst
/-! # C10 — transducer composition counts every matching path pair exactly once -/
namespace Genlm.Props.C10
alias oracle_is_path_sum := Genlm.TPNtab_spec
alias transpose_swaps_tapes := Genlm.transpose_Tk
end Genlm.Props.C10
