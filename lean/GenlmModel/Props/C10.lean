import Batteries.Tactic.Alias
import GenlmModel.Proofs.Fst
/-! # C10 — transducer composition counts every matching path pair exactly once
About the mirror models of `fst.py` (`FST.compose` / `compose'` = the two association branches of
`__matmul__` through `_augment_epsilon_transitions` and `epsilon_filter_fst`), every commutative semiring. -/
namespace Genlm.Props.C10
/-- the driver's table is the path-sum specification -/
alias oracle_is_path_sum := Genlm.TPNtab_spec
/-- THE composition theorem, graded by how many arcs each operand takes: accepting paths of `T1 @ T2`
in which T1 moves k1 times and T2 k2 times weigh Σ_y TPk T1 k1 x y · TPk T2 k2 y z — every pair of
matching paths exactly once, with ε moves on both machines (Mohri's filter) -/
alias compose_counts_each_pair_once := Genlm.compose_graded_TPk
alias compose_graded := Genlm.compose_graded
/-- summing the grades gives the plain path sum of the composed machine -/
alias compose_grades_total := Genlm.compose_GPN_total
/-- without ε on the middle tape: plain relational composition -/
alias compose_epsfree := Genlm.compose_epsfree_TPN
/-- both association branches of `__matmul__` give the same relation -/
alias compose_association_irrelevant := Genlm.compose'_Tk
alias product_construction := Genlm.composeRaw_Tk
alias transpose_swaps_tapes := Genlm.transpose_TPN
alias diag_spec := Genlm.diag_TPN
alias project_out_spec := Genlm.project_out_PN
alias project_in_spec := Genlm.project_in_PN
alias from_string_spec := Genlm.fromStringT_spec
alias from_pairs_spec := Genlm.fromPairs_spec
alias eval_epsfree := Genlm.evalN_epsfree
end Genlm.Props.C10
