import GenlmModel.Proofs.GenLink.Fst
import Batteries.Tactic.Alias
import GenlmModel.Proofs.Fst
import GenlmModel.Proofs.LimFst
import GenlmModel.Proofs.PrunedCompose
/-! # C10 — transducer composition counts every matching path pair exactly once
About the mirror models of `fst.py` (`FST.compose` / `compose'` = the two association branches of
`__matmul__` through `_augment_epsilon_transitions` and `epsilon_filter_fst`), every commutative semiring. -/
namespace Genlm.Props.C10
/-! ## re-checked tie to the source: the definitions REGENERATED from the Python builder functions on every run
(`Generated/Builders.lean`, by `harness/translate.py`) are the hand-written models the theorems below are about -/
alias gen_epsilon_filter_fst_eq_model := Genlm.gen_epsilon_filter_fst_eq_model
alias gen_FST_augment_epsilon_transitions_eq_model := Genlm.gen_FST_augment_epsilon_transitions_eq_model
alias gen_FST_diag_eq_model := Genlm.gen_FST_diag_eq_model
alias gen_FST_from_string_eq_model := Genlm.gen_FST_from_string_eq_model
alias gen_WFSA_from_string_eq_model := Genlm.gen_WFSA_from_string_eq_model
alias gen_FST_T_eq_model := Genlm.gen_FST_T_eq_model
alias gen_FST_project_eq_model := Genlm.gen_FST_project_eq_model
alias gen_FST_from_pairs_eq_model := Genlm.gen_FST_from_pairs_eq_model
alias gen_epsilon_filter_fst_path_sums := Genlm.gen_epsilon_filter_fst_TPk
alias gen_FST_augment_epsilon_transitions_path_sums := Genlm.gen_FST_augment_epsilon_transitions_TPk
alias gen_FST_from_pairs_path_sums := Genlm.gen_FST_from_pairs_TPk

/-- the driver's table is the path-sum specification -/
alias oracle_is_path_sum := Genlm.TPNtab_spec
/-- THE composition theorem, graded by how many arcs each operand takes: accepting paths of `T1 @ T2`
in which T1 moves k1 times and T2 k2 times weigh Σ_y TPk T1 k1 x y · TPk T2 k2 y z — every pair of
matching paths exactly once, with ε moves on both machines (Mohri's filter) -/
alias compose_counts_each_pair_once := Genlm.compose_graded_TPk
alias compose_graded := Genlm.compose_graded
/-- summing the grades gives the plain path sum of the composed machine -/
alias compose_grades_total := Genlm.compose_GPN_total
/-- without ε on the middle tape: plain relational composition -/
alias compose_epsfree := Genlm.compose_epsfree_TPN
/-- both association branches of `__matmul__` give the same relation -/
alias compose_association_irrelevant := Genlm.compose'_Tk
alias product_construction := Genlm.composeRaw_Tk
alias transpose_swaps_tapes := Genlm.transpose_TPN
alias diag_spec := Genlm.diag_TPN
alias project_out_spec := Genlm.project_out_PN
alias project_in_spec := Genlm.project_in_PN
alias from_string_spec := Genlm.fromStringT_spec
alias from_pairs_spec := Genlm.fromPairs_spec
alias eval_epsfree := Genlm.evalN_epsfree
/-! ## at the limit (ℝ≥0∞): `TL T x y` = sum over ALL accepting paths reading x and writing y — no hypothesis on the machines -/
alias transducer_weight_is_series := Genlm.TL_eq_tsum
/-- (f ∘ g)(x, z) = Σ_y f(x, y) · g(y, z) with y ranging over ALL strings: output-ε in f, input-ε in g, ε:ε arcs, cycles,
several initial/final states; every matching path pair exactly once -/
alias compose_is_relational_composition_limit := Genlm.compose_TL
/-- the internal association order chosen by `__matmul__` is irrelevant -/
alias compose_association_irrelevant_limit := Genlm.compose_assoc_irrelevant
alias compose_other_order_limit := Genlm.compose'_TL
alias compose_associative_limit := Genlm.compose_TL_assoc
alias transpose_limit := Genlm.transpose_TL
alias project_output_limit := Genlm.project_out_PL
alias project_input_limit := Genlm.project_in_PL
alias diag_limit := Genlm.diag_TL
alias from_string_limit := Genlm.fromString_TL
alias from_pairs_limit := Genlm.fromPairs_TL_count
/-- `T(x, y)` (`FST.__call__`: compose with both strings, total weight) is the path-sum weight, for machines WITH ε arcs/cycles -/
alias call_is_path_sum_limit := Genlm.evalL_eq_TL
alias call_any_association := Genlm.evalL_branches
/-- cross-sections `T(x, None)`, `T(None, y)` -/
alias cross_section_x := Genlm.crossX_PL
alias cross_section_y := Genlm.crossY_PL
alias total_weight_is_start_backward := Genlm.FST.totalL_eq_totalWeight

/-! ## `_pruned_compose` (the on-the-fly product the code actually builds: only pairs accessible from the initial pairs) -/
/-- terminates within |Q1|·|Q2| pops, for every worklist discipline … -/
alias pruned_compose_terminates := Genlm.prunedCompose_terminates
/-- … builds exactly the arcs of the full product that leave accessible pairs … -/
alias pruned_compose_is_accessible_part := Genlm.prunedCompose_done
/-- … and has the same weights as the full product the composition theorems are about -/
alias pruned_compose_same_weights := Genlm.prunedCompose_TPk
/-- `T1 @ T2` as the code runs it (augment, filter, two on-the-fly products) = the verified composition, both branches;
the `assert b != EPSILON` can never fire there -/
alias matmul_as_run_same_weights := Genlm.composePruned_TPk
alias matmul_as_run_other_branch := Genlm.composePruned'_TPk
alias matmul_assertion_never_fires := Genlm.composePruned_ne_assert
end Genlm.Props.C10
