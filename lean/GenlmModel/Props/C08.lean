import GenlmModel.Model.Basic
namespace Genlm.Props.C08
end Genlm.Props.C08
