import Batteries.Tactic.Alias
import GenlmModel.Proofs.AgendaM
import GenlmModel.Proofs.Zn
import GenlmModel.Proofs.Norm
import GenlmModel.Proofs.LimKleene
import GenlmModel.Proofs.Tarjan
/-! # C08 — total weights are the least solution of the grammar equations -/
namespace Genlm.Props.C08
/-- the driver's table is the Kleene iterate `ZN` -/
alias oracle_table_is_ZN := Genlm.ZNtab_spec
alias oracle_stable_is_limit := Genlm.ZN_stable_of_tab
/-- the Kleene chain increases in the algebraic pre-order: its supremum is the least solution -/
alias kleene_chain_increasing := Genlm.ZN_mono_le
/-- total weight = derivation sum with the string forgotten -/
alias total_is_forgetful_derivation_sum := Genlm.ZN_forget
/-- `_bottom_up_step` iterated n times is `ZN n` -/
alias naive_bottom_up_iterates := Genlm.bottom_up_step_is_ZN
/-- Expectation semiring: second component = length-weighted derivation sum, per string -/
alias expectation_lifting := Genlm.expectation_lifting
/-- chaotic agenda iteration (any scheduler, no tolerance): old + pending = F(old) at every reachable state -/
alias agenda_invariant := Genlm.agenda_invariant
/-- … so at termination `old` is a fixed point of the grammar equations, below every pre-fixed point -/
alias agenda_fixed_point := Genlm.agenda_fixed_point_of_empty
alias agenda_least := Genlm.agenda_least
alias agenda_below_kleene_chain := Genlm.agenda_le_ZN

/-! ## at the limit (ℝ≥0∞): `ZL G X = ⨆ n, ZN G n X` -/
/-- the total weights solve the grammar's polynomial equations … -/
alias total_weights_fixed_point := Genlm.ZL_fixed_point
/-- … and lie below every pre-fixed point: THE least solution (no convergence hypothesis; divergent parts are `∞`) -/
alias total_weights_least := Genlm.ZL_least
alias total_weights_unique_least := Genlm.ZL_unique
/-- the start symbol's value equals the sum of the string weights over the whole language -/
alias total_is_sum_over_language := Genlm.ZL_eq_tsum_WL'
/-- string weights: the least solution of the string-indexed equations -/
alias string_weights_fixed_point := Genlm.WL_fixed_point
alias string_weights_least := Genlm.WL_least
/-- a terminated chaotic agenda iteration (any scheduler) returns exactly the least solution -/
alias agenda_result_is_least_solution := Genlm.agenda_result_is_ZL

/-- the SCC order the agenda evaluator relies on (`dependency_graph().blocks`) is a correct, edge-compatible SCC decomposition -/
alias dependency_blocks_correct := Genlm.tarjanBlocks_isSccDecomp
end Genlm.Props.C08
