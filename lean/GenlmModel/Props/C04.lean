import Batteries.Tactic.Alias
import GenlmModel.Proofs.ChainRule
import GenlmModel.Proofs.Prio
/-! # C04 — grammar language models are the exact left-to-right factorisation -/
namespace Genlm.Props.C04
alias normalize_sums_to_one := Genlm.normalize_sums_to_one
alias normalize_zero := Genlm.normalize_zero
alias conditionals_sum_to_one := Genlm.cond_sums_to_one
alias chain_rule := Genlm.chain_rule_lm
alias lm_call_is_chain_rule := Genlm.lmCall_chain_rule
end Genlm.Props.C04
