import GenlmModel.Proofs.GenLink.Lm
import Batteries.Tactic.Alias
import GenlmModel.Proofs.LmLink
import GenlmModel.Proofs.ChainRule
import GenlmModel.Proofs.Prio
import GenlmModel.Proofs.IncCky
import GenlmModel.Proofs.EarleyQ
import GenlmModel.Proofs.EarleyNext
import GenlmModel.Proofs.LimPrefix
import GenlmModel.Proofs.EarleyRescaled
import GenlmModel.Proofs.EndToEndLM
/-! # C04 — grammar language models are the exact left-to-right factorisation -/
namespace Genlm.Props.C04
alias normalize_sums_to_one := Genlm.normalize_sums_to_one
alias normalize_zero := Genlm.normalize_zero
alias conditionals_sum_to_one := Genlm.cond_sums_to_one
alias chain_rule := Genlm.chain_rule_lm
alias lm_call_is_chain_rule := Genlm.lmCall_chain_rule
/-- CKY back end: before normalisation the weight computed for a next token (outside pass) equals the weight the
parser assigns to the context extended by that token — for EVERY grammar and context -/
alias cky_outside_is_inside_of_extension := Genlm.outside_is_inside_of_extension
alias cky_next_token_weight_is_derivation_sum := Genlm.incCky_pnext_is_WN
alias cky_next_token_zero_outside_vocabulary := Genlm.incCkyPNext_notin
/-- Earley back end (model of `next_token_weights`/`_helper`): the un-normalised next-token weight equals the parser's
weight of the extended context, for the parser with its priority-queue agenda -/
alias earley_next_token_is_extension := Genlm.earleyQ_pnext
alias earley_next_token_is_derivation_sum := Genlm.earley_pnext_is_WN
/-- CKY language model: normalised next-token distribution = ratio of prefix weights, sums to one, chain rule -/
alias cky_lm_correct := Genlm.cky_lm_correct
/-- Earley language model: the same -/
alias earley_lm_correct := Genlm.earley_lm_correct
alias lm_of_add_eos := Genlm.cky_lm_of_addEOS

/-! ## at the limit (ℝ≥0∞): prefix weights as infinite sums over all completions -/
/-- prefix weight = weight as a complete string + the prefix weights of the one-token extensions -/
alias prefix_weight_recurrence_limit := Genlm.pw_consistent
alias eos_prefix_weight_recurrence_limit := Genlm.addEOS_pw_consistent
/-- EOS receives the weight of the context as a complete string -/
alias eos_weight_is_string_weight := Genlm.addEOS_pw_eos
alias empty_context_is_total_weight := Genlm.addEOS_pw_nil
/-- for a viable context of finite prefix weight the conditionals sum to one -/
alias conditionals_sum_to_one_limit := Genlm.addEOS_cond_sum_one
/-- the product of the conditionals along x·EOS is weight(x) / total weight -/
alias chain_rule_limit := Genlm.addEOS_chain_rule
alias chain_rule_limit_real := Genlm.addEOS_chain_rule_lm

/-! ## the rescaled Earley language model -/
/-- next-token weights of the rescaled parser = the plain ones times ONE common factor, which normalisation cancels -/
alias rescaled_next_token_common_factor := Genlm.earleyRescaled_ntw_raw
alias rescaled_p_next_eq_plain := Genlm.earleyRescaled_pnext_eq
/-- the rescaled LM: conditionals = ratios of prefix weights, zero outside the vocabulary, sum one -/
alias rescaled_lm_correct := Genlm.earleyRescaled_lm_next
/-- `logp`: the column entry is the plain entry times the product of the coefficients that are subtracted in log space -/
alias rescaled_logp_parts := Genlm.earleyRescaled_logp
/-- why long contexts do not underflow: with the code's coefficients column k+1 holds the CONDITIONAL weight -/
alias rescaled_column_holds_conditional := Genlm.earleyRescaled_column_value
alias rescaled_coefficient_closed_form := Genlm.rescaleChoice_closed_form

/-! ## END TO END over ℝ≥0∞: the weighted language models as the code runs them -/
/-- `CKYLM`: `cfg.cnf.prefix_grammar.cnf` parsed by incremental CKY computes the prefix weight `pw` … -/
alias cky_lm_computes_prefix_weight := Genlm.ckyPfgL_call_E10
/-- … for ANY oracle that does: conditionals = ratios of prefix weights, sum to one, EOS gets weight(c)/pw(c), and the product
along x·EOS is weight(x) / total weight -/
alias lm_end_to_end := Genlm.lm_end_to_end
alias lm_end_to_end_real := Genlm.lm_end_to_end_real
alias cky_lm_end_to_end := Genlm.cky_lm_end_to_end
alias earley_lm_end_to_end := Genlm.earley_lm_end_to_end
/-- the name-freshness hypotheses of the second normal-form conversion can always be met -/
alias prefix_grammar_names_fresh := Genlm.cnfNamesK_prefix_E10
/-! ## re-checked tie to the source: the definitions REGENERATED from the Python functions on every run
(`Generated/Builders.lean` / `Generated/Folds.lean`, by `harness/translate.py`) are the hand-written models the theorems here are about -/
alias gen_Chart_sum_eq_model := Genlm.gen_Chart_sum_eq_model
alias gen_Chart_normalize_eq_model := Genlm.gen_Chart_normalize_eq_model
alias gen_LM_call_eq_model := Genlm.gen_LM_call_eq_model
alias gen_LM_call_chain_rule := Genlm.gen_LM_call_chain_rule
end Genlm.Props.C04
