import GenlmModel.Model.Basic
namespace Genlm.Props.C00
theorem t1 : (1:Nat) + 1 = 2 := rfl
theorem t2 (p : Prop) : p ∨ ¬p := Classical.em p
end Genlm.Props.C00
