import GenlmModel.Proofs.GenLink.WfsaCfg
import Batteries.Tactic.Alias
import GenlmModel.Proofs.CfgBytes
import GenlmModel.Proofs.Wfsa2
import GenlmModel.Proofs.LimWfsa
import GenlmModel.Proofs.GapBytes
/-! # C17 — automaton→grammar and byte-level conversions preserve weights -/
namespace Genlm.Props.C17
/-- right-recursive grammar: derivation sums = path sums, provided state names are disjoint from the
alphabet and from the start symbol (what the repaired `to_cfg` establishes by renaming) -/
alias to_cfg_right := Genlm.toCfgRight_spec
alias to_cfg_left := Genlm.toCfgLeft_spec
/-- byte machine: weight of a byte string = total weight of the symbol strings it encodes -/
alias to_bytes := Genlm.toBytes_Pk
alias to_bytes_not_encoding := Genlm.toBytes_Pk_not_encoding
alias to_bytes_unique_decoding := Genlm.toBytes_Pk_unique
alias to_bytes_epsfree := Genlm.toBytes_epsFree
/-- grammar to bytes: the weight of a byte string is the total weight of its decodings (level by level, every symbol) -/
alias cfg_to_bytes := Genlm.cfgToBytes_WN
alias cfg_to_bytes_not_encoding := Genlm.cfgToBytes_WN_not_encoding
alias cfg_to_bytes_prefix_free := Genlm.cfgToBytes_WN_prefixFree

/-! ## at the limit (ℝ≥0∞): machines with ε cycles -/
alias to_cfg_right_limit := Genlm.toCfgRight_WL
alias to_cfg_left_limit := Genlm.toCfgLeft_WL

/-- byte machine / byte grammar at the limit: a byte string weighs the total weight of the symbol strings it encodes, 0 if none -/
alias to_bytes_limit := Genlm.toBytes_PL_tsum
alias to_bytes_not_encoding_limit := Genlm.toBytes_PL_not_encoding
alias cfg_to_bytes_limit := Genlm.cfgToBytes_WL
alias cfg_to_bytes_not_encoding_limit := Genlm.cfgToBytes_WL_not_encoding

/-! ## re-checked tie to the source: the definitions REGENERATED from the Python functions on every run
(`Generated/Builders.lean` / `Generated/Folds.lean`, by `harness/translate.py`) are the hand-written models the theorems here are about -/
alias gen_WFSA_to_cfg_eq_model := Genlm.gen_WFSA_to_cfg_eq_model
alias gen_WFSA_to_cfg_right_eq_model := Genlm.gen_WFSA_to_cfg_right_eq_model
alias gen_WFSA_to_cfg_default_is_right := Genlm.gen_WFSA_to_cfg_default
alias gen_WFSA_to_cfg_left_eq_model := Genlm.gen_WFSA_to_cfg_left_eq_model
alias gen_WFSA_to_cfg_right_derivation_sums := Genlm.gen_WFSA_to_cfg_right_WN
alias gen_WFSA_to_cfg_left_derivation_sums := Genlm.gen_WFSA_to_cfg_left_WN
end Genlm.Props.C17
