import Batteries.Tactic.Alias
import GenlmModel.Proofs.Subst
import GenlmModel.Proofs.Regex
import GenlmModel.Proofs.Mask
import GenlmModel.Proofs.Wfsa2
import GenlmModel.Proofs.EndToEndLark
/-! # C19 — the oracles of the substitution semantics are verified; conversions by C17 -/
namespace Genlm.Props.C19
alias terminal_matcher_decides_denotation := Genlm.Re.accepts_iff
alias rule_grammar_sentences_decided := Genlm.derivesB_spec
alias automaton_to_grammar := Genlm.toCfgRight_spec
alias byte_conversion := Genlm.toBytes_Pk
/-- THE substitution theorem (derivation level): the merged grammar derives s iff s is the concatenation of matches
of a terminal sequence derivable in the rule grammar -/
alias substitution_spec := Genlm.substitution_spec
/-- … with `%ignore`: each terminal optionally preceded by one match of an ignored terminal -/
alias substitution_ignore_spec := Genlm.substitution_ignore_spec

/-! ## END TO END (the FSM of each terminal given, interegular being third party): regex FSM → WFSA → grammar → assembled
character / byte grammar -/
/-- per-terminal grammar derives exactly the strings its FSM accepts -/
alias terminal_grammar_accepts_iff := Genlm.terminal_grammar_accepts_iff
alias terminal_grammar_accepts_regex := Genlm.terminal_grammar_accepts_regex
/-- THE character-level theorem: s is derived iff s = w₁…w_k with each w_i a match of terminal t_i, optionally preceded by one match
of an ignored terminal, and t₁…t_k derivable in the Lark rule grammar -/
alias char_cfg_accepts_iff := Genlm.char_cfg_accepts_iff
alias char_cfg_accepts_iff_noignore := Genlm.char_cfg_accepts_iff_noignore
/-- THE byte-level theorem: exactly the UTF-8 encodings of those strings (UTF-8 proved prefix-free from Lean core), never a
truncated or mixed encoding -/
alias byte_cfg_accepts_iff := Genlm.byte_cfg_accepts_iff
alias byte_cfg_is_encoding_of_char_cfg := Genlm.byte_cfg_iff_encoding_of_char_cfg
alias byte_cfg_rejects_non_encoding := Genlm.byte_cfg_rejects_non_encoding
alias utf8_prefix_free := Genlm.utf8_prefixFree
end Genlm.Props.C19
