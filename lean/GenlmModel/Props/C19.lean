import Batteries.Tactic.Alias
import GenlmModel.Proofs.Regex
import GenlmModel.Proofs.Mask
import GenlmModel.Proofs.Wfsa2
/-! # C19 — the oracles of the substitution semantics are verified; conversions by C17 -/
namespace Genlm.Props.C19
alias terminal_matcher_decides_denotation := Genlm.Re.accepts_iff
alias rule_grammar_sentences_decided := Genlm.derivesB_spec
alias automaton_to_grammar := Genlm.toCfgRight_spec
alias byte_conversion := Genlm.toBytes_Pk
end Genlm.Props.C19
