import Batteries.Tactic.Alias
import GenlmModel.Proofs.Subst
import GenlmModel.Proofs.Regex
import GenlmModel.Proofs.Mask
import GenlmModel.Proofs.Wfsa2
/-! # C19 — the oracles of the substitution semantics are verified; conversions by C17 -/
namespace Genlm.Props.C19
alias terminal_matcher_decides_denotation := Genlm.Re.accepts_iff
alias rule_grammar_sentences_decided := Genlm.derivesB_spec
alias automaton_to_grammar := Genlm.toCfgRight_spec
alias byte_conversion := Genlm.toBytes_Pk
/-- THE substitution theorem (derivation level): the merged grammar derives s iff s is the concatenation of matches
of a terminal sequence derivable in the rule grammar -/
alias substitution_spec := Genlm.substitution_spec
/-- … with `%ignore`: each terminal optionally preceded by one match of an ignored terminal -/
alias substitution_ignore_spec := Genlm.substitution_ignore_spec
end Genlm.Props.C19
