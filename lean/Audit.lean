import Lean
/-! `lake env lean --run Audit.lean GenlmModel.Props.C02 Genlm.Props.C02`
prints one line `AUDIT {"thm":…,"axioms":[…]}` per theorem of the namespace. -/
open Lean

def main (args : List String) : IO UInt32 := do
  match args with
  | modS :: nsS :: more =>
    initSearchPath (← findSysroot)
    let mod := modS.toName
    let nss := (nsS :: more).map String.toName
    let env ← importModules #[{module := mod}] {}
    let mut n := 0
    for (c, ci) in env.constants.toList do
      if nss.any (fun ns => ns.isPrefixOf c) && !c.isInternal then
        if let .thmInfo _ := ci then
          let act : CoreM (Array Name) := Lean.collectAxioms c
          let (axs, _) ← act.toIO {fileName := "<audit>", fileMap := default} {env := env}
          IO.println s!"AUDIT {(Json.mkObj [("thm", toString c), ("axioms", toJson (axs.map toString))]).compress}"
          n := n + 1
    IO.println s!"AUDITED {n}"
    return 0
  | _ =>
    IO.eprintln "usage: Audit.lean <module> <namespace>"
    return 2
