import GenlmModel.Proofs.Regex
/-! `lake env lean --run ReDriver.lean`: one JSON object per line {"re": ast, "strings": [..]} →
{"accepts": [bool…]} using the verified matcher. -/
open Lean Genlm.Re

partial def loop (hin hout : IO.FS.Stream) : IO Unit := do
  let line ← hin.getLine
  if line.isEmpty then return ()
  let l := line.trimAscii.toString
  if l.isEmpty then loop hin hout else
  let out : Json :=
    match Json.parse l with
    | .error e => Json.mkObj [("error", .str e)]
    | .ok j =>
      match j.getObjVal? "re", j.getObjVal? "strings" with
      | .ok r, .ok (.arr ss) =>
        match astOfJson r with
        | .ok a => Json.mkObj [("accepts", .arr (ss.map fun s => match s with | .str t => .bool (accepts a t) | _ => .null))]
        | .error e => Json.mkObj [("error", .str e)]
      | _, _ => Json.mkObj [("error", "missing fields")]
  hout.putStrLn out.compress
  loop hin hout

def main : IO Unit := do
  loop (← IO.getStdin) (← IO.getStdout)
