import Spike.Cal

namespace Genlm
variable {σ K : Type} [DecidableEq σ] [CommSemiring K]

/-- Chomsky normal form as `CFG.in_cnf` checks it (plus: heads are not terminals). -/
def InCNF (G : CFG σ K) : Prop :=
  ∀ r ∈ G.rules, r.head ∉ G.V ∧
    ((r.body = [] ∧ r.head = G.S) ∨ (∃ a, r.body = [a] ∧ a ∈ G.V) ∨
     (∃ B C, r.body = [B, C] ∧ B ∉ G.V ∧ C ∉ G.V ∧ B ≠ G.S ∧ C ≠ G.S))

/-- per-rule contribution in the CKY recurrence: only splits into two non-empty parts -/
def ruleTerm (f : List σ → σ → K) (r : Rule σ K) (x : List σ) : K :=
  match r.body with
  | [] => if x = [] then 1 else 0
  | [a] => if x = [a] then 1 else 0
  | [B, C] => lsum (((splits x).filter (fun p => p.1 ≠ [] ∧ p.2 ≠ [])).map fun p => f p.1 B * f p.2 C)
  | _ => 0

/-- CKY recurrence with fuel in place of the memo table -/
def insN (G : CFG σ K) : Nat → List σ → σ → K
  | 0, _, _ => 0
  | n+1, x, X => lsum ((G.rules.filter (fun r => r.head = X)).map fun r => r.w * ruleTerm (insN G n) r x)

theorem sum_map_zero {α : Type} (l : List α) (f : α → K) (h : ∀ a ∈ l, f a = 0) : (l.map f).sum = 0 := by
  induction l with
  | nil => rfl
  | cons a l ih =>
    simp only [List.map_cons, List.sum_cons]
    rw [h a (by simp), ih (fun b hb => h b (by simp [hb])), add_zero]

/-- a non-start nonterminal of a CNF grammar never derives the empty string -/
theorem WN_nil_nonstart (G : CFG σ K) (h : InCNF G) (n : Nat) (B : σ) (hB : B ≠ G.S) :
    WN G n B [] = 0 := by
  induction n generalizing B with
  | zero => rfl
  | succ n ih =>
    simp only [WN, lsum_eq_sum]
    apply sum_map_zero
    intro r hr
    obtain ⟨hrG, hhead⟩ := List.mem_filter.mp hr
    have hhead : r.head = B := by simpa using hhead
    obtain ⟨_, hshape⟩ := h r hrG
    rcases hshape with ⟨_, hS⟩ | ⟨a, hb, ha⟩ | ⟨B', C', hb, hB', hC', hBS, hCS⟩
    · exact absurd (hhead ▸ hS) hB
    · rw [hb, Wbody_singleton]; simp [Wsym, ha]
    · rw [hb]
      simp only [Wbody, splits, List.map_cons, List.map_nil, lsum_eq_sum, List.sum_cons, List.sum_nil]
      simp [Wsym, hB', ih B' hBS]


theorem sum_filter_of_zero {α : Type} (l : List α) (p : α → Bool) (f : α → K)
    (h : ∀ a ∈ l, p a = false → f a = 0) : (l.map f).sum = ((l.filter p).map f).sum := by
  induction l with
  | nil => rfl
  | cons a l ih =>
    have ih' := ih (fun b hb => h b (by simp [hb]))
    by_cases hp : p a = true
    · simp [List.filter_cons_of_pos hp, ih']
    · have hp' : p a = false := by simpa using hp
      rw [List.filter_cons_of_neg (by simpa using hp)]
      simp [h a (by simp) hp', ih']

/-- level by level, the CKY recurrence computes the stratified derivation sum -/
theorem insN_eq_WN (G : CFG σ K) (h : InCNF G) (n : Nat) (x : List σ) (X : σ) :
    insN G n x X = WN G n X x := by
  induction n generalizing x X with
  | zero => rfl
  | succ n ih =>
    simp only [insN, WN, lsum_eq_sum]
    congr 1
    apply List.map_congr_left
    intro r hr
    obtain ⟨hrG, _⟩ := List.mem_filter.mp hr
    obtain ⟨_, hshape⟩ := h r hrG
    congr 1
    rcases hshape with ⟨hb, _⟩ | ⟨a, hb, ha⟩ | ⟨B, C, hb, hB, hC, hBS, hCS⟩
    · simp [ruleTerm, hb, Wbody]
    · rw [hb, Wbody_singleton]; simp [ruleTerm, hb, Wsym, ha]
    · simp only [ruleTerm, hb, Wbody, lsum_eq_sum]
      have hW : ∀ p : List σ × List σ,
          Wsym G.V (WN G n) B p.1 * ((splits p.2).map fun q => Wsym G.V (WN G n) C q.1 * (if q.2 = [] then 1 else 0)).sum
            = WN G n B p.1 * WN G n C p.2 := by
        intro p
        rw [sum_splits_right_nil p.2 (fun u => Wsym G.V (WN G n) C u)]
        simp [Wsym, hB, hC]
      simp only [hW]
      symm
      rw [sum_filter_of_zero (splits x) (fun p => decide (p.1 ≠ [] ∧ p.2 ≠ []))]
      · apply congrArg; apply List.map_congr_left; intro p _; rw [ih, ih]
      · intro p _ hp
        simp only [ne_eq, decide_eq_false_iff_not, not_and_or, not_not] at hp
        rcases hp with hp | hp
        · rw [hp, WN_nil_nonstart G h n B hBS, zero_mul]
        · rw [hp, WN_nil_nonstart G h n C hCS, mul_zero]


theorem mem_splits {α : Type} (x u v : List α) : (u, v) ∈ splits x ↔ u ++ v = x := by
  induction x generalizing u with
  | nil => simp [splits]
  | cons a x ih =>
    simp only [splits, List.mem_cons, List.mem_map, Prod.mk.injEq, Prod.exists]
    constructor
    · rintro (⟨rfl, rfl⟩ | ⟨u', v', h, rfl, rfl⟩)
      · rfl
      · simp [(ih u').mp h]
    · intro h
      cases u with
      | nil => left; exact ⟨rfl, h.symm ▸ rfl⟩
      | cons b u' =>
        right
        simp only [List.cons_append, List.cons.injEq] at h
        exact ⟨u', v, (ih u').mpr h.2, by rw [h.1], rfl⟩

/-- the CKY value of a span no longer changes once the fuel exceeds its length -/
theorem insN_stable (G : CFG σ K) : ∀ (L : Nat) (x : List σ), x.length = L →
    ∀ n m X, L + 1 ≤ n → n ≤ m → insN G m x X = insN G n x X := by
  intro L
  induction L using Nat.strong_induction_on with
  | _ L IH =>
    intro x hx n m X hn hm
    obtain ⟨n', rfl⟩ : ∃ n', n = n' + 1 := ⟨n - 1, by omega⟩
    obtain ⟨m', rfl⟩ : ∃ m', m = m' + 1 := ⟨m - 1, by omega⟩
    simp only [insN, lsum_eq_sum]
    congr 1
    apply List.map_congr_left
    intro r _
    congr 1
    rcases hb : r.body with _ | ⟨a, _ | ⟨b, _ | ⟨c, l⟩⟩⟩
    · simp [ruleTerm, hb]
    · simp [ruleTerm, hb]
    · simp only [ruleTerm, hb, lsum_eq_sum]
      congr 1
      apply List.map_congr_left
      intro p hp
      obtain ⟨hps, hne⟩ := List.mem_filter.mp hp
      have hcat : p.1 ++ p.2 = x := (mem_splits x p.1 p.2).mp hps
      have hlen : p.1.length + p.2.length = L := by rw [← hx, ← hcat, List.length_append]
      simp only [ne_eq, decide_eq_true_eq] at hne
      have h1 : 0 < p.1.length := List.length_pos_iff.mpr hne.1
      have h2 : 0 < p.2.length := List.length_pos_iff.mpr hne.2
      rw [IH p.1.length (by omega) p.1 rfl n' m' a (by omega) (by omega),
          IH p.2.length (by omega) p.2 rfl n' m' b (by omega) (by omega)]
    · simp [ruleTerm, hb]

/-- C02, CKY leg: for every CNF grammar over every commutative semiring, every string and
    every fuel beyond its length, the CKY recurrence returns the derivation sum. -/
theorem cky_correct (G : CFG σ K) (h : InCNF G) (x : List σ) (X : σ) (n : Nat) (hn : x.length + 1 ≤ n) :
    insN G (x.length + 1) x X = WN G n X x := by
  rw [← insN_eq_WN G h n x X]
  exact (insN_stable G x.length x rfl (x.length + 1) n X (le_refl _) hn).symm

end Genlm
#print axioms Genlm.cky_correct
