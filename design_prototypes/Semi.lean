import Mathlib.Tactic.Ring
import Mathlib.Tactic.FieldSimp
import Mathlib.Tactic.Linarith
import Mathlib.Algebra.Order.Field.Basic
import Mathlib.Analysis.SpecialFunctions.Log.Basic

-- model of Expectation semiring (pairs over a field)
structure Expc (K : Type) where
  p : K
  r : K
deriving DecidableEq, Repr

namespace Expc
variable {K : Type} [Field K]
def add (a b : Expc K) : Expc K := ⟨a.p + b.p, a.r + b.r⟩
def mul (a b : Expc K) : Expc K := ⟨a.p * b.p, a.p * b.r + b.p * a.r⟩
def zero : Expc K := ⟨0, 0⟩
def one : Expc K := ⟨1, 0⟩
def star (a : Expc K) : Expc K := let ps := 1 / (1 - a.p); ⟨ps, ps * a.r * ps⟩

theorem mul_assoc' (a b c : Expc K) : mul (mul a b) c = mul a (mul b c) := by
  simp only [mul]; congr 1 <;> ring
theorem left_distrib' (a b c : Expc K) : mul a (add b c) = add (mul a b) (mul a c) := by
  simp only [mul, add]; congr 1 <;> ring
theorem star_law (a : Expc K) (h : a.p ≠ 1) : star a = add one (mul a (star a)) := by
  have h' : (1 - a.p) ≠ 0 := sub_ne_zero.mpr (Ne.symm h)
  simp only [star, add, mul, one]
  congr 1 <;> field_simp <;> ring
end Expc

-- log semiring over ℝ ∪ {-∞}: model score as Option ℝ? use EReal-free encoding: WithBot ℝ
noncomputable def logadd (a b : ℝ) : ℝ := if a > b then a + Real.log (1 + Real.exp (b - a)) else b + Real.log (1 + Real.exp (a - b))

theorem logadd_eq (a b : ℝ) : logadd a b = Real.log (Real.exp a + Real.exp b) := by
  unfold logadd
  split
  · rw [show Real.exp a + Real.exp b = Real.exp a * (1 + Real.exp (b - a)) by
        rw [mul_add, mul_one, ← Real.exp_add]; ring_nf]
    rw [Real.log_mul (Real.exp_pos a).ne' (by positivity), Real.log_exp]
  · rw [show Real.exp a + Real.exp b = Real.exp b * (1 + Real.exp (a - b)) by
        rw [mul_add, mul_one, ← Real.exp_add]; ring_nf]
    rw [Real.log_mul (Real.exp_pos b).ne' (by positivity), Real.log_exp]

#print axioms Expc.star_law
#print axioms logadd_eq
