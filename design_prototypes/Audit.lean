import Spike
import Lean
open Lean Elab Command
elab "#audit " ns:ident : command => do
  let env ← getEnv
  let pre := ns.getId
  let mut out : Array Json := #[]
  for (n, ci) in env.constants.toList do
    if pre.isPrefixOf n && !n.isInternal then
      if let .thmInfo _ := ci then
        let ax ← Lean.collectAxioms n
        out := out.push (Json.mkObj [("thm", toString n), ("axioms", toJson (ax.map toString))])
  logInfo (toString (Json.arr out))
#audit Expc
#audit Genlm
