import Mathlib.Algebra.BigOperators.Group.List.Basic
import Mathlib.Algebra.Ring.Defs
import Mathlib.Tactic.Ring
import Mathlib.Tactic.Linarith

namespace Genlm

/-- S-expressions: every hashable name the library can create (str, int, tuple, namedtuple). -/
inductive Sx where
  | s (v : String) | i (v : Int) | nil | cons (a b : Sx)
deriving Repr, DecidableEq, Inhabited

def Sx.tag (t : String) (xs : List Sx) : Sx := .cons (.s t) (xs.foldr .cons .nil)
def notNull (x : Sx) : Sx := Sx.tag "NotNull" [x]
def other (x : Sx) : Sx := Sx.tag "Other" [x]
theorem notNull_inj {x y : Sx} (h : notNull x = notNull y) : x = y := by
  simpa [notNull, Sx.tag] using h
theorem notNull_ne_other (x y : Sx) : notNull x ≠ other y := by
  simp [notNull, other, Sx.tag]

section
variable {σ K : Type} [DecidableEq σ]

structure Rule (σ K : Type) where
  w : K
  head : σ
  body : List σ

structure CFG (σ K : Type) where
  S : σ
  V : List σ
  rules : List (Rule σ K)

def splits {α : Type} : List α → List (List α × List α)
  | [] => [([], [])]
  | x :: xs => ([], x :: xs) :: (splits xs).map (fun p => (x :: p.1, p.2))

variable [Add K] [Mul K] [Zero K] [One K]
def lsum (l : List K) : K := l.foldr (· + ·) 0

def Wsym (V : List σ) (f : σ → List σ → K) (s : σ) (x : List σ) : K :=
  if s ∈ V then (if x = [s] then 1 else 0) else f s x

def Wbody (V : List σ) (f : σ → List σ → K) : List σ → List σ → K
  | [], x => if x = [] then 1 else 0
  | s :: ss, x => lsum ((splits x).map fun p => Wsym V f s p.1 * Wbody V f ss p.2)

def WN (G : CFG σ K) : Nat → σ → List σ → K
  | 0, _, _ => 0
  | n+1, X, x => lsum ((G.rules.filter (fun r => r.head = X)).map fun r => r.w * Wbody G.V (WN G n) r.body x)

/-- add_EOS -/
def addEOS (G : CFG σ K) (S' eos : σ) : CFG σ K :=
  { S := S', V := eos :: G.V, rules := ⟨1, S', [G.S, eos]⟩ :: G.rules }
end

-- Boolean derivability, tree semantics
section
variable {σ K : Type} [DecidableEq σ] [Zero K]
mutual
inductive Derives (G : CFG σ K) : σ → List σ → Prop
  | term {a} : a ∈ G.V → Derives G a [a]
  | rule {r x} : r ∈ G.rules → r.w ≠ 0 → r.head ∉ G.V → DerivesBody G r.body x → Derives G r.head x
inductive DerivesBody (G : CFG σ K) : List σ → List σ → Prop
  | nil : DerivesBody G [] []
  | cons {s ss u v} : Derives G s u → DerivesBody G ss v → DerivesBody G (s :: ss) (u ++ v)
end
end

/-- algebraic pre-order and cofinality -/
def Pre {K : Type} [Add K] (a b : K) : Prop := ∃ c, b = a + c
infix:50 " ≼ " => Pre

def Cofinal {σ τ K : Type} [DecidableEq σ] [DecidableEq τ] [CommSemiring K]
    (G : CFG σ K) (G' : CFG τ K) (φ : σ → τ) (ψ : List σ → List τ) : Prop :=
  ∃ f g : Nat → Nat, ∀ n X x,
    WN G n X x ≼ WN G' (f n) (φ X) (ψ x) ∧ WN G' n (φ X) (ψ x) ≼ WN G (g n) X x

/-- Earley agenda priority (shape of the translated expression) and the order lemma -/
def prio (K I OM ord : Int) : Int := -((K - I) * OM + ord)

theorem earley_priority_strict (K I J OM oX oY : Int)
    (hOM : ∀ o, (o = oX ∨ o = oY) → 0 ≤ o ∧ o < OM)
    (hJK : J < K) (hdep : I < J ∨ (I = J ∧ oY < oX)) :
    prio K J OM oY > prio K I OM oX := by
  unfold prio
  have hX := hOM oX (Or.inl rfl); have hY := hOM oY (Or.inr rfl)
  rcases hdep with h | ⟨h, h'⟩
  · have : (K - J) * OM + OM ≤ (K - I) * OM := by nlinarith
    linarith
  · subst h; linarith

/-- the counter-model for ORDER_MAX = max order (rescaled parser on the pinned tree) -/
example : ¬ (prio 2 1 1 1 > prio 2 0 1 0) := by decide

-- C05: memoisation keyed by prefix is transparent for any pure column function
section Memo
variable {Tok Col : Type} [DecidableEq Tok]
def pureChart (init : Col) (ext : List Col → Tok → Col) (p : List Tok) : List Col :=
  p.foldl (fun c t => c ++ [ext c t]) [init]

/-- the memo table: prefix ↦ chart -/
abbrev Memo (Tok Col : Type) := List (List Tok × List Col)
def Memo.get? (m : Memo Tok Col) (p : List Tok) : Option (List Col) := (m.find? (·.1 = p)).map (·.2)

/-- `Earley.chart` / `IncrementalCKY.chart`: look up, else compute from the chart of the prefix and store. -/
def chartM (init : Col) (ext : List Col → Tok → Col) : (p : List Tok) → Memo Tok Col → List Col × Memo Tok Col
  | p, m =>
    match m.get? p with
    | some c => (c, m)
    | none =>
      match h : p.reverse with
      | [] => ([init], (p, [init]) :: m)
      | t :: r =>
        let (c, m') := chartM init ext r.reverse m
        let c' := c ++ [ext c t]
        (c', (p, c') :: m')
termination_by p => p.length
decreasing_by
  have := congrArg List.length h; simp at this; simp; omega

def Memo.Coherent (init : Col) (ext : List Col → Tok → Col) (m : Memo Tok Col) : Prop :=
  ∀ p c, (p, c) ∈ m → c = pureChart init ext p

theorem chartM_transparent (init : Col) (ext : List Col → Tok → Col) (p : List Tok) (m : Memo Tok Col)
    (hm : m.Coherent init ext) :
    (chartM init ext p m).1 = pureChart init ext p ∧ (chartM init ext p m).2.Coherent init ext := by
  fun_induction chartM init ext p m with
  | case1 p m c hget =>
    refine ⟨?_, hm⟩
    simp only [Memo.get?, Option.map_eq_some_iff] at hget
    obtain ⟨⟨p', c'⟩, hfind, rfl⟩ := hget
    have hmem := List.mem_of_find?_eq_some hfind
    have hp : p' = p := by simpa using List.find?_some hfind
    subst hp
    exact hm _ _ hmem
  | case2 p m hget hrev =>
    have hp : p = [] := by simpa using hrev
    subst hp
    refine ⟨by simp [pureChart], ?_⟩
    intro q c hqc
    simp only [List.mem_cons, Prod.mk.injEq] at hqc
    rcases hqc with ⟨rfl, rfl⟩ | h
    · simp [pureChart]
    · exact hm _ _ h
  | case3 p m hget t r hrev c m' hrec c' ih =>
    have ih' := ih hm
    rw [hrec] at ih'
    obtain ⟨hc, hm'⟩ := ih'
    simp only at hc
    have hp : p = r.reverse ++ [t] := by
      have := congrArg List.reverse hrev; simpa using this
    have hpc : c' = pureChart init ext p := by
      subst hp; simp only [c', pureChart, List.foldl_append, List.foldl_cons, List.foldl_nil]
      rw [show List.foldl (fun c t => c ++ [ext c t]) [init] r.reverse = c from hc.symm]
    refine ⟨hpc, ?_⟩
    intro q d hqd
    simp only [List.mem_cons, Prod.mk.injEq] at hqd
    rcases hqd with ⟨rfl, rfl⟩ | h
    · exact hpc
    · exact hm' _ _ h
end Memo

end Genlm
