import Spike.Skel
import Mathlib.Algebra.BigOperators.Group.List.Basic

namespace Genlm
variable {σ K : Type} [DecidableEq σ] [CommSemiring K]

@[simp] theorem lsum_eq_sum (l : List K) : lsum l = l.sum := by
  induction l with
  | nil => rfl
  | cons a l ih => simp [lsum] at *; rw [ih]

theorem Wbody_congr (V : List σ) (f g : σ → List σ → K) (body : List σ)
    (h : ∀ s ∈ body, ∀ x, f s x = g s x) (x : List σ) : Wbody V f body x = Wbody V g body x := by
  induction body generalizing x with
  | nil => rfl
  | cons s ss ih =>
    simp only [Wbody, lsum_eq_sum]
    congr 1
    apply List.map_congr_left
    intro p _
    have hs : Wsym V f s p.1 = Wsym V g s p.1 := by
      unfold Wsym; split
      · rfl
      · exact h s (by simp) _
    rw [hs, ih (fun s' hs' => h s' (by simp [hs']))]

/-- sum over splits with the right part forced empty -/
theorem sum_splits_right_nil {α : Type} [DecidableEq α] (x : List α) (F : List α → K) :
    ((splits x).map fun p => F p.1 * (if p.2 = [] then 1 else 0)).sum = F x := by
  induction x generalizing F with
  | nil => simp [splits]
  | cons a x ih =>
    simp only [splits, List.map_cons, List.sum_cons, List.map_map]
    have := ih (fun u => F (a :: u))
    simp only [Function.comp_def]
    simp only [mul_ite, mul_one, mul_zero] at this ⊢
    simp [this]

theorem Wbody_singleton (V : List σ) (f : σ → List σ → K) (s : σ) (x : List σ) :
    Wbody V f [s] x = Wsym V f s x := by
  simp only [Wbody, lsum_eq_sum]
  exact sum_splits_right_nil x (fun u => Wsym V f s u)

end Genlm

namespace Genlm
variable {σ K : Type} [DecidableEq σ] [CommSemiring K]

/-- `separate_start` when a new start symbol is needed: S' → S with weight one in front of the old rules. -/
def sepStart (G : CFG σ K) (S' : σ) : CFG σ K :=
  { S := S', V := G.V, rules := ⟨1, S', [G.S]⟩ :: G.rules }

/-- S' is fresh: not a terminal, not a head, not in any body, not the old start. -/
def Fresh (G : CFG σ K) (S' : σ) : Prop :=
  S' ∉ G.V ∧ S' ≠ G.S ∧ ∀ r ∈ G.rules, r.head ≠ S' ∧ S' ∉ r.body

theorem sepStart_old (G : CFG σ K) (S' : σ) (hf : Fresh G S') (n : Nat) (X : σ) (hX : X ≠ S') (x : List σ) :
    WN (sepStart G S') n X x = WN G n X x := by
  induction n generalizing X x with
  | zero => rfl
  | succ n ih =>
    simp only [WN, sepStart, lsum_eq_sum]
    have : (List.filter (fun r : Rule σ K => decide (r.head = X)) (⟨1, S', [G.S]⟩ :: G.rules))
         = List.filter (fun r : Rule σ K => decide (r.head = X)) G.rules := by
      rw [List.filter_cons_of_neg]; simpa using fun h => hX h.symm
    rw [this]
    congr 1
    apply List.map_congr_left
    intro r hr
    have hr' := (List.mem_filter.mp hr).1
    congr 1
    apply Wbody_congr
    intro s hs y
    have : s ≠ S' := fun h => (hf.2.2 r hr').2 (h ▸ hs)
    exact ih s this y

theorem sepStart_spec (G : CFG σ K) (S' : σ) (hf : Fresh G S') (hS : G.S ∉ G.V) (n : Nat) (x : List σ) :
    WN (sepStart G S') (n+1) S' x = WN G n G.S x := by
  simp only [WN, sepStart, lsum_eq_sum]
  have hfil : (List.filter (fun r : Rule σ K => decide (r.head = S')) G.rules) = [] := by
    rw [List.filter_eq_nil_iff]; intro r hr; simpa using (hf.2.2 r hr).1
  rw [List.filter_cons_of_pos (by simp), hfil]
  simp only [List.map_cons, List.map_nil, List.sum_cons, List.sum_nil, add_zero, one_mul]
  rw [Wbody_singleton]
  unfold Wsym
  rw [if_neg hS]
  exact sepStart_old G S' hf n G.S (Ne.symm hf.2.1) x

end Genlm
